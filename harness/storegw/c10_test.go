package storegw

import (
	"context"
	"encoding/json"
	"fmt"
	"hash/crc32"
	"io"
	"log/slog"
	"math/rand"
	"os"
	"os/exec"
	"path/filepath"
	"sort"
	"strings"
	"testing"

	"github.com/go-kit/log"
	"github.com/prometheus/client_golang/prometheus"
	dto "github.com/prometheus/client_model/go"
	"github.com/prometheus/prometheus/model/labels"
	"github.com/prometheus/prometheus/storage"
	"github.com/prometheus/prometheus/tsdb"
	"github.com/prometheus/prometheus/tsdb/chunkenc"
	"github.com/thanos-io/objstore"

	"github.com/thanos-io/thanos/pkg/block"
	"github.com/thanos-io/thanos/pkg/block/metadata"
	"github.com/thanos-io/thanos/pkg/compact/downsample"
	"github.com/thanos-io/thanos/pkg/store"
	storecache "github.com/thanos-io/thanos/pkg/store/cache"
	"github.com/thanos-io/thanos/pkg/store/storepb"

	"verif/harness/vt"
	"verif/harness/world"
)

// C10: store gateway answers equal a direct TSDB read of the same blocks, independent of cache
// state, lazy postings, batch size, index-header sampling.
//
// A case is a world and a query history:
//
//	blocks  [{ext: {name: value}, series: [{ls: {name: value}, samples: [[t, v], ...]}, ...]}, ...]
//	cr      chunk range (ms): tsdb cuts chunks at multiples of cr
//	qs      [{ms: [{name, type, kind, alts}, ...], mint, maxt}, ...]   the history, in order
//	cfgs    store configurations, e.g. "lazy=aggr,batch=1,samp=3,cache=big"
//
// The world is written as real blocks (tsdb.CreateBlock + InjectThanos, harness/world) into an
// in-memory bucket. For every configuration one real BucketStore is built over the bucket with
// its own in-memory index cache; the history is run on it query by query, each query twice in a
// row (cold / warm), and the whole history once more at the end (everything cached). The oracle
// is tsdb.OpenBlock + ChunkQuerier (DisableTrimming, as thanos' own TSDB store reads) on the
// blocks downloaded back from the bucket. Chunk contents are compared through a CRC of the
// decoded samples.
//
// Worlds and matcher sets are enumerated by TLC (PostingsMC); the harness deals the matcher sets
// over the worlds (seeded), adds time structure (chunks in slots, seeded query ranges around chunk
// boundaries), external labels and a second block; plus seeded bigger worlds (up to 60 series,
// label cardinality 20..40, so that index-header sampling matters).

type c10Matcher struct {
	Name string   `json:"name"`
	Type string   `json:"type"`
	Kind string   `json:"kind"`
	Alts []string `json:"alts"`
}

func (m c10Matcher) regex() string {
	switch m.Kind {
	case "any":
		return ".*"
	case "nonempty":
		return ".+"
	case "set":
		return strings.Join(m.Alts, "|")
	case "cls":
		// a regex that is not an alternation of literals but matches, among the universe's
		// values, exactly Alts: single characters -> [ab]+ / [ab]*; "vNx" prefixes -> vN.
		if len(m.Alts) > 0 && strings.HasPrefix(m.Alts[len(m.Alts)-1], "v") && len(m.Alts[len(m.Alts)-1]) == 3 {
			return m.Alts[len(m.Alts)-1][:2] + "."
		}
		chars, star := "", false
		for _, a := range m.Alts {
			if a == "" {
				star = true
			} else {
				chars += a
			}
		}
		re := "[" + chars + "]"
		if len(chars) == 1 {
			re = chars
		}
		if star {
			return re + "*"
		}
		return re + "+"
	}
	return m.Alts[0]
}

func (m c10Matcher) prom() *labels.Matcher {
	t := map[string]labels.MatchType{"EQ": labels.MatchEqual, "NEQ": labels.MatchNotEqual, "RE": labels.MatchRegexp, "NRE": labels.MatchNotRegexp}[m.Type]
	return labels.MustNewMatcher(t, m.Name, m.regex())
}

func (m c10Matcher) pb() storepb.LabelMatcher {
	t := map[string]storepb.LabelMatcher_Type{"EQ": storepb.LabelMatcher_EQ, "NEQ": storepb.LabelMatcher_NEQ, "RE": storepb.LabelMatcher_RE, "NRE": storepb.LabelMatcher_NRE}[m.Type]
	return storepb.LabelMatcher{Type: t, Name: m.Name, Value: m.regex()}
}

type c10Series struct {
	Ls      map[string]string `json:"ls"`
	Samples [][2]int64        `json:"samples"`
}
type c10Block struct {
	Ext    map[string]string `json:"ext"`
	Series []c10Series       `json:"series"`
	// DsOf > 0: this block is the 5m downsampling (downsample.Downsample) of block DsOf-1; Series is ignored.
	DsOf int `json:"ds_of"`
}
type c10Query struct {
	Ms   []c10Matcher `json:"ms"`
	Mint int64        `json:"mint"`
	Maxt int64        `json:"maxt"`
	// MaxRes = max_resolution_window (ms); Aggrs = requested aggregates 1..5 (count, sum, min, max,
	// counter); none = RAW only.
	MaxRes int64 `json:"maxres"`
	Aggrs  []int `json:"aggrs"`
}
type c10Case struct {
	Blocks []c10Block `json:"blocks"`
	Cr     int64      `json:"cr"`
	Qs     []c10Query `json:"qs"`
	Cfgs   []string   `json:"cfgs"`
	// WantLazy: the case is built so that lazy posting expansion must really happen on the
	// "lazy=aggr" stores; the harness fails (exit 2, not a verdict) if it does not.
	WantLazy bool `json:"want_lazy"`
	// Epochs (optional): the bucket content changes between parts of the history. Epoch k has the
	// blocks Present (indexes into Blocks) in the bucket; every store runs SyncBlocks at its start
	// and then answers the next Nq queries of Qs. Without epochs: all blocks, all queries.
	Epochs []c10Epoch `json:"epochs"`
}

type c10Epoch struct {
	Present []int `json:"present"`
	Nq      int   `json:"nq"`
}

// frame of an answer: labels and chunks [mint, maxt, [content hashes]]: one CRC of the samples for a
// raw chunk; for an aggregate chunk of a downsampled block five (count, sum, min, max, counter),
// -1 where the aggregate was not requested / not returned.
type c10Chunk struct {
	Mint, Maxt int64
	H          []int64
}

func (c c10Chunk) MarshalJSON() ([]byte, error) { return json.Marshal([]any{c.Mint, c.Maxt, c.H}) }

type c10Frame struct {
	Ls     map[string]string `json:"ls"`
	Chunks []c10Chunk        `json:"chunks"`
}

var c10AggrTypes = []downsample.AggrType{downsample.AggrCount, downsample.AggrSum, downsample.AggrMin, downsample.AggrMax, downsample.AggrCounter}

// c10Project keeps the hashes of the requested aggregates (1..5) of an aggregate chunk.
func c10Project(c c10Chunk, aggrs []int) c10Chunk {
	if len(c.H) != 5 {
		return c
	}
	out := c10Chunk{c.Mint, c.Maxt, []int64{-1, -1, -1, -1, -1}}
	for _, a := range aggrs {
		out.H[a-1] = c.H[a-1]
	}
	return out
}

// c10Hashes: one CRC for a raw chunk, five (count, sum, min, max, counter; -1 = absent) for an aggregate chunk.
func c10Hashes(c chunkenc.Chunk) []int64 {
	if c.Encoding() != downsample.ChunkEncAggr {
		return []int64{c10Hash(c)}
	}
	out := make([]int64, 5)
	for i, at := range c10AggrTypes {
		x, err := downsample.AggrChunk(c.Bytes()).Get(at)
		if err != nil {
			out[i] = -1
			continue
		}
		out[i] = c10Hash(x)
	}
	return out
}

func c10Hash(c chunkenc.Chunk) int64 {
	h := crc32.NewIEEE()
	it := c.Iterator(nil)
	for it.Next() != chunkenc.ValNone {
		t, v := it.At()
		fmt.Fprintf(h, "%d:%v;", t, v)
	}
	return int64(h.Sum32() & 0x3fffffff)
}

var c10AllCfgs = func() []string {
	var out []string
	for _, lazy := range []string{"off", "on", "aggr"} {
		for _, batch := range []string{"1", "10000"} {
			for _, samp := range []string{"1", "3", "32"} {
				out = append(out, fmt.Sprintf("lazy=%s,batch=%s,samp=%s,cache=big", lazy, batch, samp))
			}
		}
	}
	// a cache so small that entries are evicted all the time, and no cache at all
	out = append(out, "lazy=aggr,batch=2,samp=3,cache=tiny", "lazy=off,batch=2,samp=1,cache=tiny", "lazy=aggr,batch=10000,samp=32,cache=none")
	// small estimated max chunk sizes (see the chunk-fetch cases)
	out = append(out, "lazy=off,batch=10000,samp=1,cache=big,chunkest=16", "lazy=aggr,batch=1,samp=3,cache=none,chunkest=24")
	return out
}()

func TestC10(t *testing.T) {
	rnd := vt.Rand()
	// the model's assumption about which regexes Prometheus treats as sets (toPostingGroup fast paths)
	for _, chk := range []struct {
		m   c10Matcher
		set bool
	}{
		{c10Matcher{"n", "RE", "set", []string{"a"}}, true}, {c10Matcher{"n", "RE", "set", []string{"a", "c"}}, true},
		{c10Matcher{"n", "RE", "cls", []string{"a"}}, false}, {c10Matcher{"n", "RE", "cls", []string{"a", "b"}}, false},
		{c10Matcher{"n", "RE", "cls", []string{"", "a"}}, false}, {c10Matcher{"n", "RE", "cls", []string{"v10", "v11"}}, false},
	} {
		if got := len(chk.m.prom().SetMatches()) > 0; got != chk.set {
			t.Fatalf("harness assumption broken: SetMatches of %q = %v", chk.m.regex(), chk.m.prom().SetMatches())
		}
	}

	var tlcWorlds [][]map[string]string
	var tlcSets [][]c10Matcher
	for _, c := range vt.TLCCases(t) {
		b, _ := json.Marshal(c)
		if vt.Str(c["k"]) == "w" {
			// a series is its label map; the empty map is serialised by TLC as []
			var w struct {
				Series []map[string]string
			}
			for _, sv := range vt.List(c["series"]) {
				ls := map[string]string{}
				if m, ok := sv.(map[string]any); ok {
					for k, v := range m {
						ls[k] = vt.Str(v)
					}
				}
				w.Series = append(w.Series, ls)
			}
			tlcWorlds = append(tlcWorlds, w.Series)
		} else {
			var q struct {
				Ms []c10Matcher `json:"ms"`
			}
			if err := json.Unmarshal(b, &q); err != nil {
				t.Fatal(err)
			}
			tlcSets = append(tlcSets, q.Ms)
		}
	}
	rnd.Shuffle(len(tlcWorlds), func(i, j int) { tlcWorlds[i], tlcWorlds[j] = tlcWorlds[j], tlcWorlds[i] })
	rnd.Shuffle(len(tlcSets), func(i, j int) { tlcSets[i], tlcSets[j] = tlcSets[j], tlcSets[i] })

	const cr = 1000
	// samples of one series: a seeded subset of the slots 0..3, 1-3 samples per slot
	mkSamples := func(si int) [][2]int64 {
		var out [][2]int64
		for k := 0; k < 4; k++ {
			if rnd.Intn(3) == 0 {
				continue
			}
			offs := [][]int64{{100, 400}, {0, 999}, {500}, {250, 500, 750}}[rnd.Intn(4)]
			for _, o := range offs {
				out = append(out, [2]int64{int64(k)*cr + o, int64(si*1000) + int64(k)*10 + o%7})
			}
		}
		if len(out) == 0 {
			out = append(out, [2]int64{int64(rnd.Intn(4))*cr + 300, int64(si)})
		}
		return out
	}
	ranges := func(blocks []c10Block) (int64, int64) {
		// around chunk boundaries: slot edges and sample offsets, +-1
		pts := []int64{-1, 0, 99, 100, 101, 400, 500, 999, 1000, 1001, 1100, 1499, 2000, 2250, 2999, 3000, 3500, 3999, 4000, 5000}
		a, b := pts[rnd.Intn(len(pts))], pts[rnd.Intn(len(pts))]
		if a > b {
			a, b = b, a
		}
		if rnd.Intn(4) == 0 {
			a, b = -10, 10000
		}
		return a, b
	}
	pickCfgs := func(n int) []string {
		if n >= len(c10AllCfgs) {
			return c10AllCfgs
		}
		p := rnd.Perm(len(c10AllCfgs))[:n]
		sort.Ints(p)
		out := make([]string, 0, n)
		for _, i := range p {
			out = append(out, c10AllCfgs[i])
		}
		return out
	}
	extMatchers := []c10Matcher{
		{"ext", "EQ", "lit", []string{"e1"}}, {"ext", "NEQ", "lit", []string{"e1"}}, {"ext", "RE", "set", []string{"e1", "e3"}},
		{"ext", "NRE", "set", []string{"e2"}}, {"ext", "EQ", "lit", []string{""}}, {"ext", "RE", "any", nil},
	}

	gen := func(yield func(vt.Case)) {
		// --- TLC worlds x TLC matcher sets ---
		nw := vt.Pick(20, 100)
		nq := 15
		qi := 0
		for wi := 0; wi < nw && len(tlcWorlds) > 0; wi++ {
			w := tlcWorlds[wi%len(tlcWorlds)]
			var series []c10Series
			for si, ls := range w {
				l := map[string]string{"job": "j"}
				for k, v := range ls {
					if v != "" {
						l[k] = v
					}
				}
				series = append(series, c10Series{Ls: l, Samples: mkSamples(si)})
			}
			blocks := []c10Block{{Ext: map[string]string{"ext": "e1"}, Series: series}}
			switch rnd.Intn(4) {
			case 0: // the same series again in a second block with the same external labels, later in time
				var s2 []c10Series
				for si, s := range series {
					if rnd.Intn(3) == 0 {
						continue
					}
					s2 = append(s2, c10Series{Ls: s.Ls, Samples: [][2]int64{{4200 + int64(si), 1}, {4700, 2}}})
				}
				if len(s2) > 0 {
					blocks = append(blocks, c10Block{Ext: map[string]string{"ext": "e1"}, Series: s2})
				}
			case 1: // a second block of another stream (different external labels)
				var s2 []c10Series
				for si, s := range series {
					s2 = append(s2, c10Series{Ls: s.Ls, Samples: mkSamples(si + 7)})
				}
				if len(s2) > 0 {
					blocks = append(blocks, c10Block{Ext: map[string]string{"ext": "e2"}, Series: s2})
				}
			}
			var qs []c10Query
			for k := 0; k < nq && len(tlcSets) > 0; k++ {
				ms := append([]c10Matcher{}, tlcSets[qi%len(tlcSets)]...)
				qi++
				if rnd.Intn(5) == 0 {
					ms = append(ms, extMatchers[rnd.Intn(len(extMatchers))])
				}
				a, b := ranges(blocks)
				qs = append(qs, c10Query{Ms: ms, Mint: a, Maxt: b})
				if rnd.Intn(4) == 0 { // the same selectors again later with another range (cache hit, other chunks)
					a, b = ranges(blocks)
					qs = append(qs, c10Query{Ms: ms, Mint: a, Maxt: b})
					k++
				}
			}
			yield(c10ToCase(c10Case{Blocks: blocks, Cr: cr, Qs: qs, Cfgs: pickCfgs(vt.Pick(8, 10))}))
		}
		// --- known finding ext-only-selectors: histories whose selectors are all on external labels ---
		for wi := 0; wi < vt.Pick(2, 12) && len(tlcWorlds) > 0; wi++ {
			w := tlcWorlds[(nw+wi)%len(tlcWorlds)]
			var series []c10Series
			for si, ls := range w {
				l := map[string]string{"job": "j"}
				for k, v := range ls {
					if v != "" {
						l[k] = v
					}
				}
				series = append(series, c10Series{Ls: l, Samples: mkSamples(si)})
			}
			blocks := []c10Block{{Ext: map[string]string{"ext": "e1"}, Series: series}, {Ext: map[string]string{"ext": "e2"}, Series: series}}
			var qs []c10Query
			for k := 0; k < 5; k++ {
				a, b := ranges(blocks)
				qs = append(qs, c10Query{Ms: []c10Matcher{extMatchers[rnd.Intn(len(extMatchers))]}, Mint: a, Maxt: b})
			}
			yield(c10ToCase(c10Case{Blocks: blocks, Cr: cr, Qs: qs, Cfgs: pickCfgs(4)}))
		}
		// --- time structure x cache history x lazy expansion ---
		// Series cover different sub-ranges of the block (only early, only late, middle, all, one
		// slot); the same selectors are asked over narrow-then-wide, wide-then-narrow and disjoint
		// ranges on stores that share one index cache over the history. Two label names with keys,
		// so that the aggressive cost setting makes the second posting group lazy.
		for wi := 0; wi < vt.Pick(8, 40); wi++ {
			var series []c10Series
			covers := [][]int{{0, 1}, {2, 3}, {1, 2}, {0, 1, 2, 3}, {0}, {3}, {0, 3}}
			ns := 6 + rnd.Intn(8)
			for si := 0; si < ns; si++ {
				l := map[string]string{"job": "j", "id": fmt.Sprintf("s%02d", si), "n0": []string{"a", "b"}[rnd.Intn(2)], "n1": []string{"a", "b"}[rnd.Intn(2)]}
				if si < 4 { // every combination of n0, n1 exists
					l["n0"], l["n1"] = []string{"a", "b"}[si%2], []string{"a", "b"}[si/2]
				}
				var smp [][2]int64
				for _, k := range covers[(si+wi)%len(covers)] {
					for _, o := range [][]int64{{100, 400}, {0, 999}, {500}}[rnd.Intn(3)] {
						smp = append(smp, [2]int64{int64(k)*cr + o, int64(si*100 + k)})
					}
				}
				series = append(series, c10Series{Ls: l, Samples: smp})
			}
			blocks := []c10Block{{Ext: map[string]string{"ext": "e1"}, Series: series}}
			sels := [][]c10Matcher{
				{{"n0", "EQ", "lit", []string{"a"}}, {"n1", "EQ", "lit", []string{"b"}}},
				{{"n0", "EQ", "lit", []string{"b"}}, {"n1", "RE", "set", []string{"a", "b"}}},
				{{"n0", "RE", "set", []string{"a", "b"}}, {"n1", "NEQ", "lit", []string{"a"}}},
				{{"n0", "EQ", "lit", []string{"a"}}, {"n1", "RE", "cls", []string{"a", "b"}}, {"job", "EQ", "lit", []string{"j"}}},
				{{"n0", "NRE", "set", []string{"b"}}, {"n1", "EQ", "lit", []string{"a"}}},
			}
			hist := [][][2]int64{
				{{0, 999}, {-10, 10000}},                  // narrow, then wide
				{{-10, 10000}, {2000, 2999}},              // wide, then narrow
				{{0, 999}, {3000, 3999}},                  // disjoint
				{{1000, 1999}, {0, 3999}, {3500, 5000}},   // narrow, wide, narrow
				{{3000, 3000}, {0, 0}, {0, 4000}},         // points, then everything
			}
			var qs []c10Query
			for _, k := range rnd.Perm(len(sels))[:3] {
				for _, r := range hist[rnd.Intn(len(hist))] {
					qs = append(qs, c10Query{Ms: sels[k], Mint: r[0], Maxt: r[1]})
				}
			}
			cfgs := []string{"lazy=aggr,batch=1,samp=1,cache=big", "lazy=aggr,batch=10000,samp=3,cache=big", "lazy=off,batch=2,samp=1,cache=big",
				"lazy=on,batch=10000,samp=32,cache=big", "lazy=aggr,batch=2,samp=3,cache=tiny", "lazy=aggr,batch=3,samp=1,cache=none", "lazy=off,batch=10000,samp=1,cache=big,chunkest=16"}
			c := c10Case{Blocks: blocks, Cr: cr, Qs: qs, Cfgs: cfgs, WantLazy: true}
			yield(c10ToCase(c))
		}
		// --- block-set dynamics: SyncBlocks between the parts of one history ---
		// A (early half) and B (late half) of one stream, C = their compaction, D = another stream.
		// The bucket content changes between epochs (a block appears, blocks are deleted, two blocks
		// are replaced by their compaction); the stores keep their index cache across the syncs and
		// the same selectors come back in every epoch.
		for wi := 0; wi < vt.Pick(5, 30); wi++ {
			ns := 4 + rnd.Intn(5)
			var sa, sb, sc, sd []c10Series
			for si := 0; si < ns; si++ {
				l := map[string]string{"job": "j", "id": fmt.Sprintf("s%02d", si), "n0": []string{"a", "b"}[si%2], "n1": []string{"a", "b"}[(si/2)%2]}
				var ea, eb [][2]int64
				for k := 0; k < 4; k++ {
					if rnd.Intn(4) == 0 {
						continue
					}
					for _, o := range [][]int64{{100, 400}, {0, 999}, {500}}[rnd.Intn(3)] {
						smp := [2]int64{int64(k)*cr + o, int64(si*100 + k)}
						if k < 2 {
							ea = append(ea, smp)
						} else {
							eb = append(eb, smp)
						}
					}
				}
				if len(ea) > 0 {
					sa = append(sa, c10Series{Ls: l, Samples: ea})
				}
				if len(eb) > 0 {
					sb = append(sb, c10Series{Ls: l, Samples: eb})
				}
				if len(ea)+len(eb) > 0 {
					sc = append(sc, c10Series{Ls: l, Samples: append(append([][2]int64{}, ea...), eb...)})
				}
				if rnd.Intn(3) != 0 {
					sd = append(sd, c10Series{Ls: l, Samples: mkSamples(si + 20)})
				}
			}
			if len(sa) == 0 || len(sb) == 0 || len(sd) == 0 {
				continue
			}
			e1, e2 := map[string]string{"ext": "e1"}, map[string]string{"ext": "e2"}
			blocks := []c10Block{{Ext: e1, Series: sa}, {Ext: e1, Series: sb}, {Ext: e1, Series: sc}, {Ext: e2, Series: sd}}
			const A, B, C, D = 0, 1, 2, 3
			plan := [][][]int{
				{{A}, {A, B}, {C}},
				{{A, B, D}, {A, D}, {D}},
				{{D}, {A, D}, {A, B, D}, {C, D}},
				{{A, B}, {C}, {C, D}},
				{{C, D}, {C}, {}},
			}[wi%5]
			sels := [][]c10Matcher{
				{{"n0", "EQ", "lit", []string{"a"}}},
				{{"n0", "EQ", "lit", []string{"a"}}, {"n1", "EQ", "lit", []string{"b"}}},
				{{"n1", "NEQ", "lit", []string{"a"}}, {"ext", "EQ", "lit", []string{"e1"}}},
				{{"n0", "RE", "set", []string{"a", "b"}}, {"n1", "RE", "cls", []string{"a"}}},
				{{"id", "RE", "nonempty", nil}},
			}
			var qs []c10Query
			var eps []c10Epoch
			for _, present := range plan {
				n := 0
				for _, k := range rnd.Perm(len(sels))[:3] {
					a, b := ranges(blocks)
					if rnd.Intn(2) == 0 {
						a, b = -10, 10000
					}
					qs = append(qs, c10Query{Ms: sels[k], Mint: a, Maxt: b})
					n++
				}
				eps = append(eps, c10Epoch{Present: present, Nq: n})
			}
			cfgs := []string{"lazy=aggr,batch=1,samp=1,cache=big", "lazy=off,batch=10000,samp=3,cache=big", "lazy=aggr,batch=2,samp=3,cache=tiny", "lazy=on,batch=3,samp=32,cache=none"}
			yield(c10ToCase(c10Case{Blocks: blocks, Cr: cr, Qs: qs, Cfgs: cfgs, Epochs: eps}))
		}
		// --- downsampled blocks: aggregate chunks, max_resolution_window, requested aggregates ---
		// R = a raw block of 3 h (samples every 30 s, series covering all / early / late / middle parts),
		// D = its 5m downsampling by downsample.Downsample. The bucket holds R, then R and D, then D
		// only (or other orders); requests carry max_resolution_window 0 / 5m / 1h and aggregate lists.
		for wi := 0; wi < vt.Pick(3, 16); wi++ {
			const step, hour = 30000, 3600000
			var series []c10Series
			spans := [][2]int64{{0, 3 * hour}, {0, hour}, {2 * hour, 3 * hour}, {hour / 2, 5 * hour / 2}, {0, 3 * hour}}
			for si := 0; si < 4+rnd.Intn(3); si++ {
				l := map[string]string{"job": "j", "id": fmt.Sprintf("s%02d", si), "n0": []string{"a", "b"}[si%2], "n1": []string{"a", "b"}[(si/2)%2]}
				sp := spans[(si+wi)%len(spans)]
				var smp [][2]int64
				v := int64(rnd.Intn(100))
				for ts := sp[0]; ts < sp[1]; ts += step {
					if rnd.Intn(40) == 0 {
						v = int64(rnd.Intn(5)) // counter reset
					}
					v += int64(rnd.Intn(7))
					if rnd.Intn(25) == 0 {
						continue // a scrape is missing
					}
					smp = append(smp, [2]int64{ts + int64(rnd.Intn(1000)), v})
				}
				series = append(series, c10Series{Ls: l, Samples: smp})
			}
			e1 := map[string]string{"ext": "e1"}
			blocks := []c10Block{{Ext: e1, Series: series}, {Ext: e1, Series: []c10Series{}, DsOf: 1}}
			plan := [][][]int{{{0}, {0, 1}, {1}}, {{0, 1}, {1}}, {{1}, {0, 1}}, {{0, 1}}}[wi%4]
			sels := [][]c10Matcher{
				{{"n0", "EQ", "lit", []string{"a"}}},
				{{"n0", "EQ", "lit", []string{"b"}}, {"n1", "RE", "set", []string{"a", "b"}}},
				{{"id", "RE", "nonempty", nil}},
				{{"n1", "NEQ", "lit", []string{"a"}}},
			}
			rngs := [][2]int64{{0, 3 * hour}, {0, hour - 1}, {hour, 2 * hour}, {5 * hour / 2, 4 * hour}, {hour + 77, hour + 77}, {-10, 100}, {2*hour - 1, 2 * hour}}
			aggrSets := [][]int{{1, 2}, {3}, {4, 5}, {1, 2, 3, 4, 5}, {}, {5}}
			var qs []c10Query
			var eps []c10Epoch
			for _, present := range plan {
				n := 4 + rnd.Intn(3)
				for k := 0; k < n; k++ {
					r := rngs[rnd.Intn(len(rngs))]
					qs = append(qs, c10Query{Ms: sels[rnd.Intn(len(sels))], Mint: r[0], Maxt: r[1],
						MaxRes: []int64{0, 300000, 300000, 3600000}[rnd.Intn(4)], Aggrs: aggrSets[rnd.Intn(len(aggrSets))]})
				}
				eps = append(eps, c10Epoch{Present: present, Nq: n})
			}
			cfgs := []string{"lazy=off,batch=10000,samp=1,cache=big", "lazy=aggr,batch=1,samp=3,cache=big", "lazy=aggr,batch=2,samp=32,cache=tiny",
				"lazy=off,batch=10000,samp=1,cache=none,chunkest=64"}
			yield(c10ToCase(c10Case{Blocks: blocks, Cr: 2 * hour, Qs: qs, Cfgs: cfgs, Epochs: eps}))
		}
		// --- chunk fetch: partitioned range reads with a size estimate and a refetch of the remainder ---
		// Several chunks per series, adjacent in one segment file (one partition), small (1-2 samples)
		// and large (60-100 samples of incompressible values) mixed; stores with estimated max chunk
		// sizes of 16 / 48 / 300 bytes, so that chunks are larger than the estimate in every position
		// of a partition (first, middle, last; followed by a small or a large chunk).
		for wi := 0; wi < vt.Pick(4, 20); wi++ {
			var series []c10Series
			for si := 0; si < 3+rnd.Intn(4); si++ {
				l := map[string]string{"job": "j", "id": fmt.Sprintf("s%02d", si), "n0": []string{"a", "b"}[si%2]}
				var smp [][2]int64
				for k := 0; k < 5; k++ {
					switch rnd.Intn(4) {
					case 0: // no chunk in this slot
					case 1:
						smp = append(smp, [2]int64{int64(k)*cr + 100, int64(si)}, [2]int64{int64(k)*cr + 600, int64(si + 1)})
					default:
						n := 60 + rnd.Intn(41)
						for j := 0; j < n; j++ {
							smp = append(smp, [2]int64{int64(k)*cr + int64(j)*9 + int64(rnd.Intn(5)), rnd.Int63n(1 << 40)})
						}
					}
				}
				if len(smp) == 0 {
					smp = append(smp, [2]int64{300, 1})
				}
				series = append(series, c10Series{Ls: l, Samples: smp})
			}
			blocks := []c10Block{{Ext: map[string]string{"ext": "e1"}, Series: series}}
			sels := [][]c10Matcher{{{"job", "EQ", "lit", []string{"j"}}}, {{"n0", "EQ", "lit", []string{"a"}}}, {{"id", "RE", "nonempty", nil}, {"n0", "NEQ", "lit", []string{"a"}}}}
			var qs []c10Query
			for _, r := range [][2]int64{{-10, 10000}, {0, 1999}, {1000, 3999}, {2500, 2600}, {4000, 9000}, {999, 1000}} {
				qs = append(qs, c10Query{Ms: sels[rnd.Intn(len(sels))], Mint: r[0], Maxt: r[1]})
			}
			cfgs := []string{"lazy=off,batch=10000,samp=1,cache=none,chunkest=16", "lazy=off,batch=1,samp=1,cache=big,chunkest=16",
				"lazy=off,batch=10000,samp=3,cache=big,chunkest=48", "lazy=aggr,batch=2,samp=1,cache=none,chunkest=300", "lazy=off,batch=10000,samp=1,cache=big"}
			yield(c10ToCase(c10Case{Blocks: blocks, Cr: cr, Qs: qs, Cfgs: cfgs}))
		}
		// --- bigger seeded worlds ---
		for wi := 0; wi < vt.Pick(6, 30); wi++ {
			card := 20 + rnd.Intn(21)
			ns := 12 + rnd.Intn(49)
			val := func(i int) string { return fmt.Sprintf("v%02d", i) }
			var series []c10Series
			seen := map[string]bool{}
			for si := 0; si < ns; si++ {
				l := map[string]string{"job": "j"}
				if rnd.Intn(6) != 0 {
					l["n0"] = val(rnd.Intn(card))
				}
				if rnd.Intn(3) != 0 {
					l["n1"] = val(rnd.Intn(6))
				}
				key := l["n0"] + "/" + l["n1"]
				if seen[key] {
					continue
				}
				seen[key] = true
				series = append(series, c10Series{Ls: l, Samples: mkSamples(si)})
			}
			blocks := []c10Block{{Ext: map[string]string{"ext": "e1"}, Series: series}}
			pat := func(name string) c10Matcher {
				typ := []string{"EQ", "NEQ", "RE", "NRE"}[rnd.Intn(4)]
				if typ == "EQ" || typ == "NEQ" {
					v := val(rnd.Intn(card + 2))
					if rnd.Intn(4) == 0 {
						v = ""
					}
					return c10Matcher{name, typ, "lit", []string{v}}
				}
				switch rnd.Intn(4) {
				case 0:
					return c10Matcher{name, typ, "any", nil}
				case 1:
					return c10Matcher{name, typ, "nonempty", nil}
				case 2:
					var alts []string
					if rnd.Intn(4) == 0 {
						alts = append(alts, "")
					}
					for k, n := 0, 1+rnd.Intn(5); k < n; k++ {
						alts = append(alts, val(rnd.Intn(card+2)))
					}
					return c10Matcher{name, typ, "set", c10Uniq(alts)}
				}
				d := rnd.Intn(4) // v0. .. v3.
				var alts []string
				for k := 0; k < 10; k++ {
					alts = append(alts, fmt.Sprintf("v%d%d", d, k))
				}
				return c10Matcher{name, typ, "cls", alts}
			}
			var qs []c10Query
			for k := 0; k < 6; k++ {
				ms := []c10Matcher{pat("n0")}
				if rnd.Intn(2) == 0 {
					ms = append(ms, pat([]string{"n0", "n1", "zz"}[rnd.Intn(3)]))
				}
				if rnd.Intn(3) == 0 {
					ms = append(ms, pat("n1"))
				}
				a, b := ranges(blocks)
				qs = append(qs, c10Query{Ms: ms, Mint: a, Maxt: b})
			}
			yield(c10ToCase(c10Case{Blocks: blocks, Cr: cr, Qs: qs, Cfgs: pickCfgs(vt.Pick(6, 10))}))
		}
	}
	vt.Run(t, gen, c10KnownFinding, func(c vt.Case) vt.Event {
		if c10Isolate(c) {
			return runC10Child(t, c)
		}
		ev := runC10(t, c)
		ev["crash"] = ""
		return ev
	})
}

// c10Isolate: cases with small-chunk-estimate stores run in a child process. A wrong chunk offset
// makes the store decode garbage, and the resulting panic happens in a goroutine of the store
// (response set), where the harness cannot recover it: the child dies, the parent records it.
func c10Isolate(c vt.Case) bool {
	for _, cfg := range vt.List(c["cfgs"]) {
		if strings.Contains(vt.Str(cfg), "chunkest") {
			return true
		}
	}
	return false
}

func runC10Child(t *testing.T, c vt.Case) vt.Event {
	scratch := os.Getenv("VERIF_SCRATCH")
	if scratch == "" {
		scratch = t.TempDir()
	}
	dir, err := os.MkdirTemp(scratch, "c10child-")
	if err != nil {
		t.Fatal(err)
	}
	defer os.RemoveAll(dir)
	in, out := filepath.Join(dir, "case.json"), filepath.Join(dir, "event.json")
	b, _ := json.Marshal(c)
	if err := os.WriteFile(in, b, 0o600); err != nil {
		t.Fatal(err)
	}
	cmd := exec.Command(os.Args[0], "-test.run", "^TestC10Child$", "-test.timeout", "600s")
	cmd.Env = append(os.Environ(), "VERIF_CHILD_CASE="+in, "VERIF_CHILD_OUT="+out, "VERIF_SCRATCH="+dir)
	output, runErr := cmd.CombinedOutput()
	if eb, err := os.ReadFile(out); err == nil && runErr == nil {
		var ev vt.Event
		dec := json.NewDecoder(strings.NewReader(string(eb)))
		dec.UseNumber()
		if err := dec.Decode(&ev); err == nil {
			ev["crash"] = ""
			return ev
		}
	}
	// the process that ran the stores died
	msg := "child process failed"
	for _, line := range strings.Split(string(output), "\n") {
		if strings.HasPrefix(line, "panic:") || strings.HasPrefix(line, "fatal error:") || strings.Contains(line, "c10_test.go") && strings.Contains(line, "c10:") {
			msg = strings.TrimSpace(line)
			break
		}
	}
	if len(msg) > 300 {
		msg = msg[:300]
	}
	return vt.Event{"blocks": []any{}, "qs": []any{}, "syncerrs": []string{}, "ds": false, "crash": msg,
		"stats": map[string]any{"lazy_applied": 0, "expanded_postings_cache_hits": 0, "stores": 0}}
}

// TestC10Child runs one case in this (child) process; see runC10Child.
func TestC10Child(t *testing.T) {
	in, out := os.Getenv("VERIF_CHILD_CASE"), os.Getenv("VERIF_CHILD_OUT")
	if in == "" || out == "" {
		t.Skip("only run as a child of TestC10")
	}
	b, err := os.ReadFile(in)
	if err != nil {
		t.Fatal(err)
	}
	var c vt.Case
	dec := json.NewDecoder(strings.NewReader(string(b)))
	dec.UseNumber()
	if err := dec.Decode(&c); err != nil {
		t.Fatal(err)
	}
	ev := runC10(t, c)
	eb, err := json.Marshal(ev)
	if err != nil {
		t.Fatal(err)
	}
	if err := os.WriteFile(out, eb, 0o600); err != nil {
		t.Fatal(err)
	}
}

func c10Uniq(in []string) []string {
	seen := map[string]bool{}
	var out []string
	for _, s := range in {
		if !seen[s] {
			seen[s] = true
			out = append(out, s)
		}
	}
	return out
}

func c10ToCase(c c10Case) vt.Case {
	// no JSON null may reach the trace (TLC cannot read it): empty lists instead of nil
	for qi := range c.Qs {
		if c.Qs[qi].Aggrs == nil {
			c.Qs[qi].Aggrs = []int{}
		}
		for mi := range c.Qs[qi].Ms {
			if c.Qs[qi].Ms[mi].Alts == nil {
				c.Qs[qi].Ms[mi].Alts = []string{}
			}
		}
	}
	for bi := range c.Blocks {
		if c.Blocks[bi].Series == nil {
			c.Blocks[bi].Series = []c10Series{}
		}
	}
	if c.Epochs == nil {
		c.Epochs = []c10Epoch{}
	}
	for ei := range c.Epochs {
		if c.Epochs[ei].Present == nil {
			c.Epochs[ei].Present = []int{}
		}
	}
	b, err := json.Marshal(c)
	if err != nil {
		panic(err)
	}
	var out vt.Case
	if err := json.Unmarshal(b, &out); err != nil {
		panic(err)
	}
	return out
}

// c10KnownFinding: key "ext-only-selectors" iff some query of the history has selectors and all of
// them are on label names that are external labels of a block of the world (decided on the input).
func c10KnownFinding(c vt.Case) string {
	ext := map[string]bool{}
	for _, b := range vt.List(c["blocks"]) {
		for k := range vt.Map(vt.Map(b)["ext"]) {
			ext[k] = true
		}
	}
	for _, q := range vt.List(c["qs"]) {
		ms := vt.List(vt.Map(q)["ms"])
		all := len(ms) > 0
		for _, m := range ms {
			all = all && ext[vt.Str(vt.Map(m)["name"])]
		}
		if all {
			return "ext-only-selectors"
		}
	}
	return ""
}

func c10Discard() *slog.Logger { return slog.New(slog.NewTextHandler(io.Discard, nil)) }

type c10Answer struct {
	Frames []c10Frame `json:"frames"`
	Err    string     `json:"err"`
}

func c10Counter(reg *prometheus.Registry, name string, match map[string]string) float64 {
	mfs, _ := reg.Gather()
	var sum float64
	for _, mf := range mfs {
		if mf.GetName() != name {
			continue
		}
		for _, m := range mf.Metric {
			ok := true
			for k, v := range match {
				found := false
				for _, lp := range m.Label {
					if lp.GetName() == k && lp.GetValue() == v {
						found = true
					}
				}
				ok = ok && found
			}
			if ok {
				sum += c10Value(m)
			}
		}
	}
	return sum
}

func c10Value(m *dto.Metric) float64 {
	if m.Counter != nil {
		return m.Counter.GetValue()
	}
	return 0
}

func runC10(t *testing.T, c vt.Case) vt.Event {
	var cs c10Case
	b, _ := json.Marshal(c)
	if err := json.Unmarshal(b, &cs); err != nil {
		t.Fatalf("c10: bad case: %v", err)
	}
	ctx := context.Background()
	scratch := os.Getenv("VERIF_SCRATCH")
	if scratch == "" {
		scratch = t.TempDir()
	}
	dir, err := os.MkdirTemp(scratch, "c10-")
	if err != nil {
		t.Fatal(err)
	}
	defer os.RemoveAll(dir)

	// ---- world -> real blocks in a bucket ----
	bkt := objstore.NewInMemBucket()   // the bucket the stores read
	stage := objstore.NewInMemBucket() // every block of the case; blocks are copied into / deleted from bkt per epoch
	var wblocks []world.Block
	hasDs := false
	for _, bl := range cs.Blocks {
		if bl.DsOf > 0 {
			hasDs = true
			continue
		}
		wb := world.Block{Ext: bl.Ext, ChunkRange: cs.Cr}
		for _, s := range bl.Series {
			ws := world.Series{Labels: s.Ls}
			for _, sm := range s.Samples {
				ws.Samples = append(ws.Samples, world.Sample{T: sm[0], V: float64(sm[1])})
			}
			wb.Series = append(wb.Series, ws)
		}
		wblocks = append(wblocks, wb)
	}
	built, err := world.UploadBlocks(ctx, stage, filepath.Join(dir, "mk"), wblocks)
	if err != nil {
		t.Fatalf("c10: building the world failed: %v", err)
	}
	if hasDs {
		// downsampled blocks: downsample.Downsample of the raw block, uploaded next to it
		full := make([]world.BuiltBlock, len(cs.Blocks))
		j := 0
		for i, bl := range cs.Blocks {
			if bl.DsOf == 0 {
				if j >= len(built) {
					t.Fatalf("c10: a case with downsampled blocks must not contain empty blocks")
				}
				full[i] = built[j]
				j++
			}
		}
		for i, bl := range cs.Blocks {
			if bl.DsOf == 0 {
				continue
			}
			src := full[bl.DsOf-1]
			sdir := filepath.Join(dir, "ds-src", src.Meta.ULID.String())
			if err := block.Download(ctx, log.NewNopLogger(), stage, src.Meta.ULID, sdir); err != nil {
				t.Fatalf("c10: download: %v", err)
			}
			rb, err := tsdb.OpenBlock(c10Discard(), sdir, nil, nil)
			if err != nil {
				t.Fatalf("c10: open raw block: %v", err)
			}
			odir := filepath.Join(dir, "ds-out")
			if err := os.MkdirAll(odir, 0o750); err != nil {
				t.Fatal(err)
			}
			id, err := downsample.Downsample(ctx, log.NewNopLogger(), src.Meta, rb, odir, downsample.ResLevel1)
			rb.Close()
			if err != nil {
				t.Fatalf("c10: downsample: %v", err)
			}
			if err := block.Upload(ctx, log.NewNopLogger(), stage, filepath.Join(odir, id.String()), metadata.NoneFunc); err != nil {
				t.Fatalf("c10: upload downsampled block: %v", err)
			}
			m, err := metadata.ReadFromDir(filepath.Join(odir, id.String()))
			if err != nil {
				t.Fatalf("c10: meta of downsampled block: %v", err)
			}
			full[i] = world.BuiltBlock{Meta: m}
		}
		built = full
	}
	epochs := cs.Epochs
	if len(epochs) == 0 {
		all := make([]int, len(built))
		for i := range all {
			all[i] = i
		}
		epochs = []c10Epoch{{Present: all, Nq: len(cs.Qs)}}
	} else if len(built) != len(cs.Blocks) {
		t.Fatalf("c10: a case with epochs must not contain empty blocks")
	}
	inBkt := map[int]bool{}
	setBucket := func(present []int) {
		want := map[int]bool{}
		for _, i := range present {
			want[i] = true
		}
		for i, bb := range built {
			id := bb.Meta.ULID.String()
			switch {
			case want[i] && !inBkt[i]:
				var names []string
				if err := stage.Iter(ctx, id+"/", func(n string) error { names = append(names, n); return nil }, objstore.WithRecursiveIter()); err != nil {
					t.Fatalf("c10: iter: %v", err)
				}
				sort.Slice(names, func(a, b int) bool { return strings.HasSuffix(names[b], "meta.json") && !strings.HasSuffix(names[a], "meta.json") }) // meta.json last, as an upload does
				for _, n := range names {
					r, err := stage.Get(ctx, n)
					if err != nil {
						t.Fatalf("c10: get: %v", err)
					}
					if err := bkt.Upload(ctx, n, r); err != nil {
						t.Fatalf("c10: upload: %v", err)
					}
					r.Close()
				}
				inBkt[i] = true
			case !want[i] && inBkt[i]:
				if err := block.Delete(ctx, log.NewNopLogger(), bkt, bb.Meta.ULID); err != nil {
					t.Fatalf("c10: delete block: %v", err)
				}
				inBkt[i] = false
			}
		}
	}
	setBucket(epochs[0].Present)

	// ---- oracle: the same blocks read with the Prometheus TSDB reader ----
	type oblock struct {
		meta *metadata.Meta
		b    *tsdb.Block
	}
	var oblocks []oblock
	for _, bb := range built {
		bdir := filepath.Join(dir, "oracle", bb.Meta.ULID.String())
		if err := block.Download(ctx, log.NewNopLogger(), stage, bb.Meta.ULID, bdir); err != nil {
			t.Fatalf("c10: download: %v", err)
		}
		ob, err := tsdb.OpenBlock(c10Discard(), bdir, downsample.NewPool(), nil)
		if err != nil {
			t.Fatalf("c10: open block: %v", err)
		}
		defer ob.Close()
		oblocks = append(oblocks, oblock{bb.Meta, ob})
	}
	readBlock := func(ob oblock, ms []*labels.Matcher, mint, maxt int64) []c10Frame {
		q, err := tsdb.NewBlockChunkQuerier(ob.b, mint, maxt)
		if err != nil {
			t.Fatalf("c10: chunk querier: %v", err)
		}
		defer q.Close()
		if len(ms) == 0 {
			ms = []*labels.Matcher{labels.MustNewMatcher(labels.MatchRegexp, "job", ".*")}
		}
		ss := q.Select(ctx, true, &storage.SelectHints{Start: mint, End: maxt, DisableTrimming: true}, ms...)
		var out []c10Frame
		for ss.Next() {
			s := ss.At()
			f := c10Frame{Ls: map[string]string{}, Chunks: []c10Chunk{}}
			s.Labels().Range(func(l labels.Label) { f.Ls[l.Name] = l.Value })
			for k, v := range ob.meta.Thanos.Labels {
				f.Ls[k] = v
			}
			it := s.Iterator(nil)
			for it.Next() {
				m := it.At()
				f.Chunks = append(f.Chunks, c10Chunk{m.MinTime, m.MaxTime, c10Hashes(m.Chunk)})
			}
			if it.Err() != nil {
				t.Fatalf("c10: oracle chunk iterator: %v", it.Err())
			}
			if len(f.Chunks) > 0 {
				out = append(out, f)
			}
		}
		if ss.Err() != nil {
			t.Fatalf("c10: oracle select: %v", ss.Err())
		}
		return out
	}
	// the world as the TSDB reader sees it over all time (chunk layout as written)
	evBlocks := []map[string]any{}
	for _, ob := range oblocks {
		fr := readBlock(ob, nil, -1<<40, 1<<40)
		series := make([]map[string]any, 0, len(fr))
		for i, f := range fr {
			ls := map[string]string{}
			for k, v := range f.Ls {
				if _, isExt := ob.meta.Thanos.Labels[k]; !isExt {
					ls[k] = v
				}
			}
			series = append(series, map[string]any{"id": i + 1, "ls": ls, "chunks": f.Chunks})
		}
		evBlocks = append(evBlocks, map[string]any{"ext": ob.meta.Thanos.Labels, "series": series,
			"res": ob.meta.Thanos.Downsample.Resolution, "mint": ob.meta.MinTime, "maxt": ob.meta.MaxTime})
	}
	// per loaded block: what the TSDB reader gives for the query (chunks projected on the requested aggregates)
	oracle := func(q c10Query, present []int) [][]c10Frame {
		out := [][]c10Frame{}
		for _, bi := range present {
			ob := oblocks[bi]
			ext := labels.FromMap(ob.meta.Thanos.Labels)
			var rest []*labels.Matcher
			ok := true
			for _, m := range q.Ms {
				pm := m.prom()
				if v := ext.Get(pm.Name); v != "" {
					ok = ok && pm.Matches(v)
					continue
				}
				rest = append(rest, pm)
			}
			fr := []c10Frame{}
			if ok {
				for _, f := range readBlock(ob, rest, q.Mint, q.Maxt) {
					for k := range f.Chunks {
						f.Chunks[k] = c10Project(f.Chunks[k], q.Aggrs)
					}
					fr = append(fr, f)
				}
			}
			out = append(out, fr)
		}
		return out
	}

	// ---- the stores ----
	type st struct {
		name string
		bs   *store.BucketStore
		reg  *prometheus.Registry
	}
	var stores []st
	for i, cfg := range cs.Cfgs {
		kv := map[string]string{}
		for _, p := range strings.Split(cfg, ",") {
			x := strings.SplitN(p, "=", 2)
			kv[x[0]] = x[1]
		}
		reg := prometheus.NewRegistry()
		opts := []store.BucketStoreOption{store.WithRegistry(reg)}
		switch kv["cache"] {
		case "big", "tiny":
			conf := storecache.InMemoryIndexCacheConfig{MaxSize: 64 << 20, MaxItemSize: 32 << 20}
			if kv["cache"] == "tiny" {
				conf = storecache.InMemoryIndexCacheConfig{MaxSize: 600, MaxItemSize: 300}
			}
			ic, err := storecache.NewInMemoryIndexCacheWithConfig(log.NewNopLogger(), nil, reg, conf)
			if err != nil {
				t.Fatalf("c10: index cache: %v", err)
			}
			opts = append(opts, store.WithIndexCache(ic))
		}
		if kv["lazy"] == "aggr" {
			// series look cheap and postings expensive: the optimizer makes groups lazy whenever it may
			opts = append(opts, store.WithBlockEstimatedMaxSeriesFunc(func(metadata.Meta) uint64 { return 1 }),
				store.WithSeriesMatchRatio(0.5), store.WithPostingGroupMaxKeySeriesRatio(0.2))
		} else if kv["lazy"] == "on" {
			opts = append(opts, store.WithSeriesMatchRatio(0.5))
		}
		// a bounded chunk pool, as a real store gateway has (--chunk-pool-size): a nonsensical chunk
		// length must surface as a failed request (an observation), not take the process down
		cp, err := store.NewDefaultChunkBytesPool(64 << 20)
		if err != nil {
			t.Fatalf("c10: chunk pool: %v", err)
		}
		opts = append(opts, store.WithChunkPool(cp))
		if v := kv["chunkest"]; v != "" {
			// a small estimated max chunk size: ordinary chunks are "oversized" for loadChunks, which then
			// has to complete them with a second read while other chunks of the same partition follow
			n := uint64(vt.Int(v))
			opts = append(opts, store.WithBlockEstimatedMaxChunkFunc(func(metadata.Meta) uint64 { return n }))
		}
		bs, err := world.NewBucketStore(ctx, bkt, filepath.Join(dir, fmt.Sprintf("store-%d", i)), world.BucketOpts{
			LazyPostings: kv["lazy"] != "off", BatchSize: vt.Int(kv["batch"]), PostingOffsetsInMemSampling: vt.Int(kv["samp"]), Options: opts,
		})
		if err != nil {
			t.Fatalf("c10: bucket store %s: %v", cfg, err)
		}
		defer bs.Close()
		stores = append(stores, st{cfg, bs, reg})
	}

	ask := func(s st, q c10Query) c10Answer {
		req := &storepb.SeriesRequest{MinTime: q.Mint, MaxTime: q.Maxt, MaxResolutionWindow: q.MaxRes,
			Aggregates: []storepb.Aggr{storepb.Aggr_RAW}}
		for _, a := range q.Aggrs {
			req.Aggregates = append(req.Aggregates, []storepb.Aggr{storepb.Aggr_COUNT, storepb.Aggr_SUM, storepb.Aggr_MIN, storepb.Aggr_MAX, storepb.Aggr_COUNTER}[a-1])
		}
		for _, m := range q.Ms {
			req.Matchers = append(req.Matchers, m.pb())
		}
		res := c10CallSeries(ctx, s.bs, req)
		return res
	}

	// answers[q] = map answer-json -> who
	type group struct {
		N   int      `json:"n"`   // number of (store configuration, run) that gave this answer
		Who []string `json:"who"` // the first few of them
		c10Answer
	}
	groups := make([][]*group, len(cs.Qs))
	index := make([]map[string]*group, len(cs.Qs))
	add := func(qi int, who string, a c10Answer) {
		if index[qi] == nil {
			index[qi] = map[string]*group{}
		}
		kb, _ := json.Marshal(a)
		if g, ok := index[qi][string(kb)]; ok {
			g.N++
			if len(g.Who) < 3 {
				g.Who = append(g.Who, who)
			}
			return
		}
		g := &group{N: 1, Who: []string{who}, c10Answer: a}
		index[qi][string(kb)] = g
		groups[qi] = append(groups[qi], g)
	}
	loadedAt := make([][]int, len(cs.Qs)) // per query: the blocks in the bucket at the last sync (1-based, as in the event)
	syncErrs := []string{}
	q0 := 0
	for ei, ep := range epochs {
		if ei > 0 {
			setBucket(ep.Present)
			for _, s := range stores {
				if err := s.bs.SyncBlocks(ctx); err != nil {
					syncErrs = append(syncErrs, fmt.Sprintf("epoch %d %s: %v", ei, s.name, err))
				}
			}
		}
		q1 := q0 + ep.Nq
		if q1 > len(cs.Qs) || ei == len(epochs)-1 {
			q1 = len(cs.Qs)
		}
		for qi := q0; qi < q1; qi++ {
			loadedAt[qi] = []int{}
			for _, bi := range ep.Present {
				loadedAt[qi] = append(loadedAt[qi], bi+1)
			}
		}
		for _, s := range stores {
			for qi := q0; qi < q1; qi++ {
				add(qi, s.name+"#cold", ask(s, cs.Qs[qi]))
				add(qi, s.name+"#warm", ask(s, cs.Qs[qi]))
			}
			for qi := q0; qi < q1; qi++ {
				add(qi, s.name+"#again", ask(s, cs.Qs[qi]))
			}
		}
		q0 = q1
	}
	var lazyApplied, epHits float64
	for _, s := range stores {
		lazyApplied += c10Counter(s.reg, "thanos_bucket_store_lazy_expanded_postings_total", nil)
		epHits += c10Counter(s.reg, "thanos_store_index_cache_hits_total", map[string]string{"item_type": "ExpandedPostings"})
	}
	if cs.WantLazy && lazyApplied == 0 {
		t.Fatalf("c10: the case was built to make lazy posting expansion happen, but thanos_bucket_store_lazy_expanded_postings_total stayed 0 on every store: the harness' assumption about the optimizer is broken")
	}
	evQs := make([]map[string]any, 0, len(cs.Qs))
	for qi, q := range cs.Qs {
		ms := make([]map[string]any, 0, len(q.Ms))
		for _, m := range q.Ms {
			alts := m.Alts
			if alts == nil {
				alts = []string{}
			}
			ms = append(ms, map[string]any{"name": m.Name, "type": m.Type, "kind": m.Kind, "alts": alts})
		}
		present := []int{}
		for _, b1 := range loadedAt[qi] {
			present = append(present, b1-1)
		}
		aggrs := q.Aggrs
		if aggrs == nil {
			aggrs = []int{}
		}
		evQs = append(evQs, map[string]any{"ms": ms, "mint": q.Mint, "maxt": q.Maxt, "maxres": q.MaxRes, "aggrs": aggrs,
			"oracle": oracle(q, present), "res": groups[qi], "loaded": loadedAt[qi]})
	}
	return vt.Event{"blocks": evBlocks, "qs": evQs, "syncerrs": syncErrs, "ds": hasDs, "stats": map[string]any{"lazy_applied": int(lazyApplied), "expanded_postings_cache_hits": int(epHits), "stores": len(stores)}}
}

// c10CallSeries runs Series and normalises the answer (frames in arrival order).
func c10CallSeries(ctx context.Context, bs *store.BucketStore, req *storepb.SeriesRequest) (a c10Answer) {
	a.Frames = []c10Frame{}
	defer func() {
		if r := recover(); r != nil {
			a.Err = "panic: " + fmt.Sprint(r)
		}
	}()
	srv := &c10Server{ctx: ctx}
	if err := bs.Series(req, srv); err != nil {
		a.Err = err.Error()
		return a
	}
	for _, s := range srv.series {
		f := c10Frame{Ls: map[string]string{}, Chunks: []c10Chunk{}}
		for _, l := range s.Labels {
			f.Ls[string([]byte(l.Name))] = string([]byte(l.Value))
		}
		for _, ch := range s.Chunks {
			hx := func(c *storepb.Chunk) int64 {
				if c == nil {
					return -1
				}
				x, err := chunkenc.FromData(chunkenc.EncXOR, c.Data)
				if err != nil || c.Type != storepb.Chunk_XOR {
					return -2
				}
				return c10Hash(x)
			}
			var h []int64
			if ch.Raw != nil {
				h = []int64{hx(ch.Raw)}
			} else {
				h = []int64{hx(ch.Count), hx(ch.Sum), hx(ch.Min), hx(ch.Max), hx(ch.Counter)}
			}
			f.Chunks = append(f.Chunks, c10Chunk{ch.MinTime, ch.MaxTime, h})
		}
		a.Frames = append(a.Frames, f)
	}
	if len(srv.warnings) > 0 {
		a.Err = "warning: " + strings.Join(srv.warnings, "; ")
	}
	return a
}

type c10Server struct {
	storepb.Store_SeriesServer
	ctx      context.Context
	series   []*storepb.Series
	warnings []string
}

func (s *c10Server) Context() context.Context { return s.ctx }
func (s *c10Server) Send(r *storepb.SeriesResponse) error {
	if w := r.GetWarning(); w != "" {
		s.warnings = append(s.warnings, w)
		return nil
	}
	cp := func(in *storepb.Series) {
		// the store may reuse buffers after Send returns: copy
		b, err := in.Marshal()
		if err != nil {
			panic(err)
		}
		out := &storepb.Series{}
		if err := out.Unmarshal(b); err != nil {
			panic(err)
		}
		s.series = append(s.series, out)
	}
	if x := r.GetSeries(); x != nil {
		cp(x)
		return nil
	}
	if b := r.GetBatch(); b != nil {
		for _, x := range b.Series {
			if x != nil {
				cp(x)
			}
		}
	}
	return nil
}

var _ = rand.Int
