// Package storegw holds the conformance harnesses of the store gateway properties
// (C15 block selection, C12 postings codecs, C10 Series = direct TSDB read).
package storegw

import (
	"fmt"
	"math/rand"
	"strings"
	"testing"

	"github.com/oklog/ulid/v2"
	"github.com/prometheus/prometheus/model/labels"
	"github.com/prometheus/prometheus/tsdb"

	"github.com/thanos-io/thanos/pkg/block/metadata"
	"github.com/thanos-io/thanos/pkg/store"

	"verif/harness/vt"
)

// C15: bucketBlockSet.getFor picks blocks that cover the query at allowed resolutions.
//
// A case is one block layout plus a list of queries, all run on one real bucketBlockSet (through
// the verif export shim):
//
//	blocks  [[res, a, b], ...]  block k (id k, 1-based) holds [base+a*unit, base+b*unit) at res ms
//	unit, base                  concretisation of the abstract grid
//	order   permutation         order in which the blocks are add()ed
//	churn   [[res, a, b], ...]  extra blocks that are added (interleaved) and removed again
//	gridqs, nq, qseed           the queries: every grid range x the three resolutions (gridqs) plus nq
//	                            seeded off-grid ones (c15Queries)
//
// Layouts come from TLC (BlockSetMC: every multiset of <= 3 blocks on the grid) and from a seeded
// random generator (bigger grids, up to 12 blocks). The queries of a TLC layout are all grid
// ranges x the three resolutions plus seeded off-grid ones (+-1 ms around block boundaries, odd
// maxres values).
func TestC15(t *testing.T) {
	rnd := vt.Rand()
	resVals := []int64{0, 300000, 3600000}
	units := []int64{1, 1000, 7200000}
	bases := func(u int64) int64 {
		// TLC integers are 32 bit: keep every timestamp below 2^31
		return []int64{0, 1000000000, -3 * u, 7}[rnd.Intn(4)]
	}
	gen := func(yield func(vt.Case)) {
		for _, c := range vt.TLCCases(t) {
			u := units[rnd.Intn(len(units))]
			c["unit"], c["base"] = u, bases(u)
			n := len(vt.List(c["blocks"]))
			c["order"] = rnd.Perm(n)
			c["churn"] = [][]int64{}
			c["gridqs"], c["nq"], c["qseed"] = true, 8, rnd.Int63n(1<<30)
			yield(c)
		}
		nr := vt.Pick(300, 2500)
		for i := 0; i < nr; i++ {
			g := 4 + rnd.Intn(28)
			nb := rnd.Intn(13)
			blocks := make([][]int64, nb)
			for k := range blocks {
				a := rnd.Intn(g)
				w := 1 + rnd.Intn(g-a)
				if rnd.Intn(3) == 0 { // short blocks are the common case
					w = 1 + rnd.Intn(1+(g-a)/4)
				}
				blocks[k] = []int64{resVals[rnd.Intn(3)], int64(a), int64(a + w)}
			}
			nc := rnd.Intn(4)
			churn := make([][]int64, nc)
			for k := range churn {
				a := rnd.Intn(g)
				churn[k] = []int64{resVals[rnd.Intn(3)], int64(a), int64(a + 1 + rnd.Intn(g-a))}
			}
			u := units[rnd.Intn(len(units))]
			yield(vt.Case{"g": g, "blocks": blocks, "unit": u, "base": bases(u), "order": rnd.Perm(nb), "churn": churn,
				"gridqs": false, "nq": 40, "qseed": rnd.Int63n(1 << 30)})
		}
	}
	kf := func(c vt.Case) string { return "" }
	vt.Run(t, gen, kf, func(c vt.Case) vt.Event {
		u, base := vt.Int64(c["unit"]), vt.Int64(c["base"])
		mk := func(id int, tr []any) *metadata.Meta {
			m := &metadata.Meta{}
			m.Version = 1
			m.ULID[15] = byte(id)
			m.ULID[14] = byte(id >> 8)
			m.MinTime = base + vt.Int64(tr[1])*u
			m.MaxTime = base + vt.Int64(tr[2])*u
			m.Thanos.Downsample.Resolution = vt.Int64(tr[0])
			m.Thanos.Labels = map[string]string{"cluster": "a"}
			m.BlockMeta.Compaction = tsdb.BlockMetaCompaction{Level: 1}
			return m
		}
		set := store.VerifNewBlockSet(labels.FromStrings("cluster", "a"))
		blocks := vt.List(c["blocks"])
		churn := vt.List(c["churn"])
		idOf := map[ulid.ULID]int{}
		evBlocks := make([][]int64, 0, len(blocks)) // [id, res, min, max] as given to add()
		metas := make([]*metadata.Meta, len(blocks))
		for k, b := range blocks {
			m := mk(k+1, vt.List(b))
			metas[k] = m
			idOf[m.ULID] = k + 1
			evBlocks = append(evBlocks, []int64{int64(k + 1), m.Thanos.Downsample.Resolution, m.MinTime, m.MaxTime})
		}
		churnMetas := make([]*metadata.Meta, len(churn))
		for k, b := range churn {
			churnMetas[k] = mk(1000+k, vt.List(b))
			idOf[churnMetas[k].ULID] = 1000 + k // would be reported as an unknown block if ever selected
		}
		ev := vt.Event{"blocks": evBlocks}
		var addErr string
		order := vt.Ints(c["order"])
		for i, k := range order {
			if i < len(churnMetas) {
				if err := set.Add(churnMetas[i]); err != nil {
					addErr = err.Error()
				}
			}
			if err := set.Add(metas[k]); err != nil {
				addErr = err.Error()
			}
		}
		for i := len(order); i < len(churnMetas); i++ {
			if err := set.Add(churnMetas[i]); err != nil {
				addErr = err.Error()
			}
		}
		for _, m := range churnMetas {
			set.Remove(m.ULID)
		}
		ev["adderr"] = addErr
		// one entry per getFor call: [mint, maxt, maxres, ok (1, or 0 = panic), [selected ids]]
		qs := c15Queries(c)
		out := make([][]any, 0, len(qs))
		panics := []string{}
		for _, q := range qs {
			mint, maxt, maxres := q[0], q[1], q[2]
			o := []any{mint, maxt, maxres, 1, []int{}}
			func() {
				defer func() {
					if r := recover(); r != nil {
						o[3] = 0
						panics = append(panics, fmt.Sprint(r))
					}
				}()
				ids := set.GetFor(mint, maxt, maxres)
				sel := make([]int, 0, len(ids))
				for _, id := range ids {
					n, ok := idOf[id]
					if !ok {
						n = -1
					}
					sel = append(sel, n)
				}
				o[4] = sel
			}()
			out = append(out, o)
		}
		ev["calls"] = out
		// the same calls again with block matchers (request hints): __block_id =~ / !~ a seeded subset
		// of the blocks; [mint, maxt, maxres, ok, [selected ids], [ids of the matching blocks]]
		mr := rand.New(rand.NewSource(vt.Int64(c["qseed"]) + 1))
		mout := make([][]any, 0, len(qs))
		for qi, q := range qs {
			if len(metas) == 0 || (qi%3 != 0 && len(qs) > 12) {
				continue
			}
			var pick []string
			allowed := []int{}
			neg := mr.Intn(3) == 0
			for k, m := range metas {
				in := mr.Intn(2) == 0
				if in {
					pick = append(pick, m.ULID.String())
				}
				if in != neg {
					allowed = append(allowed, k+1)
				}
			}
			if len(pick) == 0 {
				pick = []string{"none"}
			}
			typ := labels.MatchRegexp
			if neg {
				typ = labels.MatchNotRegexp
			}
			bm := []*labels.Matcher{labels.MustNewMatcher(typ, "__block_id", strings.Join(pick, "|")), labels.MustNewMatcher(labels.MatchEqual, "cluster", "a")}
			o := []any{q[0], q[1], q[2], 1, []int{}, allowed}
			func() {
				defer func() {
					if r := recover(); r != nil {
						o[3] = 0
						panics = append(panics, fmt.Sprint(r))
					}
				}()
				sel := []int{}
				for _, id := range set.GetForMatching(q[0], q[1], q[2], bm) {
					n, ok := idOf[id]
					if !ok {
						n = -1
					}
					sel = append(sel, n)
				}
				o[4] = sel
			}()
			mout = append(mout, o)
		}
		ev["mcalls"] = mout
		ev["panics"] = panics
		return ev
	})
}

// c15Queries derives the queries of a case from its input alone (so a replay re-runs the same
// calls): all ranges between grid points x {raw, 5m, 1h} when gridqs is set, plus nq seeded
// queries whose ends lie on or 1 ms beside grid points (from one unit before the grid to one
// after) with resolutions on and beside the three levels; about 1 in 16 has mint > maxt.
func c15Queries(c vt.Case) [][]int64 {
	resVals := []int64{0, 300000, 3600000}
	oddRes := []int64{0, 1, 299999, 300000, 300001, 3599999, 3600000, 3600001, 2000000000}
	g, u, b := vt.Int(c["g"]), vt.Int64(c["unit"]), vt.Int64(c["base"])
	var qs [][]int64
	if vt.Bool(c["gridqs"]) {
		for m := 0; m <= g; m++ {
			for x := m; x <= g; x++ {
				for _, r := range resVals {
					qs = append(qs, []int64{b + int64(m)*u, b + int64(x)*u, r})
				}
			}
		}
	}
	rnd := rand.New(rand.NewSource(vt.Int64(c["qseed"])))
	for i := 0; i < vt.Int(c["nq"]); i++ {
		p := func() int64 {
			v := b + int64(rnd.Intn(g+3)-1)*u
			if u > 1 || rnd.Intn(4) == 0 {
				v += int64(rnd.Intn(3) - 1)
			}
			return v
		}
		m, x := p(), p()
		if m > x && rnd.Intn(8) != 0 {
			m, x = x, m
		}
		qs = append(qs, []int64{m, x, oddRes[rnd.Intn(len(oddRes))]})
	}
	return qs
}
