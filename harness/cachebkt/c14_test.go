package cachebkt

import (
	"bufio"
	"bytes"
	"context"
	"crypto/sha256"
	"encoding/hex"
	"encoding/json"
	"fmt"
	"hash/fnv"
	"io"
	"math/rand"
	"os"
	"os/exec"
	"path/filepath"
	"sort"
	"strconv"
	"sync"
	"testing"
	"time"

	"github.com/go-kit/log"
	"github.com/thanos-io/objstore"

	"github.com/thanos-io/thanos/pkg/cache"
	storecache "github.com/thanos-io/thanos/pkg/store/cache"
	"github.com/thanos-io/thanos/pkg/store/cache/cachekey"

	"verif/harness/vt"
)

// ---------------------------------------------------------------------------------------------
// C14: the caching bucket is transparent for immutable objects.
//
// A case is a world (objects of given sizes in an in-memory bucket), a configuration (subrange
// size S, max sub-requests M, max cacheable Get size mc, store-drop percentage of the cache) and a
// history of reads and evictions.  Every read is executed through a real storecache.CachingBucket
// and directly on the underlying bucket; both answers are logged and TLC (C14Trace) compares them.
//
// Cases: (1) every abstract GetRange request x relevant cache content TLC enumerated
// (CachingBucketMC.RngCases), scaled by a factor k; (2) every TLC-enumerated history over the small
// operation alphabet (HistCases); (3) seeded random worlds and histories with realistic sizes and a
// cache that drops 0/20/60 % of the stores.
//
// Sub-requests of GetRange run in errgroup goroutines, where a panic kills the process, so the
// cases run in a child process (the test binary re-executing itself); when the child dies the
// parent records the read that was in flight as got.kind = "panic" and restarts the child after it.
// ---------------------------------------------------------------------------------------------

// stallAfter: a single in-memory read that does not return for this long counts as a hang.
const stallAfter = 90 * time.Second

type lossyCache struct {
	mu   sync.Mutex
	m    map[string][]byte
	rnd  *rand.Rand
	drop int // percentage of stores that are lost
}

func (c *lossyCache) Store(data map[string][]byte, ttl time.Duration) {
	c.mu.Lock()
	defer c.mu.Unlock()
	if ttl <= 0 {
		return
	}
	keys := make([]string, 0, len(data))
	for k := range data {
		keys = append(keys, k)
	}
	sort.Strings(keys)
	for _, k := range keys {
		if c.drop > 0 && c.rnd.Intn(100) < c.drop {
			continue
		}
		c.m[k] = data[k] // retained, as the Cache contract allows
	}
}

func (c *lossyCache) Fetch(_ context.Context, keys []string) map[string][]byte {
	c.mu.Lock()
	defer c.mu.Unlock()
	out := map[string][]byte{}
	for _, k := range keys {
		if v, ok := c.m[k]; ok {
			out[k] = v
		}
	}
	return out
}

func (c *lossyCache) Name() string { return "verif-lossy" }

// evict removes the entries whose verb is in kinds ("all" = every verb), whose object name matches
// (name "" or "*" = any) and, for subranges, whose start offset is not in except.
func (c *lossyCache) evict(kinds []string, name string, except []int) int {
	c.mu.Lock()
	defer c.mu.Unlock()
	kset := map[string]bool{}
	for _, k := range kinds {
		kset[k] = true
	}
	ex := map[int64]bool{}
	for _, e := range except {
		ex[int64(e)] = true
	}
	n := 0
	for k := range c.m {
		ck, err := cachekey.ParseBucketCacheKey(k)
		verb, nm := "", ""
		if err == nil {
			verb, nm = string(ck.Verb), ck.Name
		}
		if verb == string(cachekey.IterRecursiveVerb) {
			verb = "iter"
		}
		if !(kset["all"] || kset[verb]) {
			continue
		}
		if name != "" && name != "*" && err == nil && nm != name && verb != "iter" {
			continue
		}
		if verb == "subrange" && ex[ck.Start] {
			continue
		}
		delete(c.m, k)
		n++
	}
	return n
}

// snapshot: cached subrange start offsets of an object (with the end offset the caching bucket
// would use for size/S) and whether its attributes are cached.
func (c *lossyCache) snapshot(name string, size, S int64) (hit []int64, attr bool) {
	c.mu.Lock()
	defer c.mu.Unlock()
	hit = []int64{}
	for k, v := range c.m {
		ck, err := cachekey.ParseBucketCacheKey(k)
		if err != nil || ck.Name != name {
			continue
		}
		switch ck.Verb {
		case cachekey.AttributesVerb:
			attr = true
		case cachekey.SubrangeVerb:
			end := ck.Start + S
			if end > size {
				end = size
			}
			if ck.End == end && v != nil {
				hit = append(hit, ck.Start)
			}
		}
	}
	sort.Slice(hit, func(i, j int) bool { return hit[i] < hit[j] })
	return hit, attr
}

// recBucket records the GetRange calls that reach the underlying bucket.
type recBucket struct {
	objstore.Bucket
	mu   sync.Mutex
	reqs [][]int64
}

func (b *recBucket) GetRange(ctx context.Context, name string, off, length int64) (io.ReadCloser, error) {
	b.mu.Lock()
	b.reqs = append(b.reqs, []int64{off, length})
	b.mu.Unlock()
	return b.Bucket.GetRange(ctx, name, off, length)
}

func (b *recBucket) take() [][]int64 {
	b.mu.Lock()
	defer b.mu.Unlock()
	r := b.reqs
	b.reqs = nil
	if r == nil {
		r = [][]int64{}
	}
	sort.Slice(r, func(i, j int) bool { return r[i][0] < r[j][0] || (r[i][0] == r[j][0] && r[i][1] < r[j][1]) })
	return r
}

func content(cseed int64, name string, size int) []byte {
	h := fnv.New64a()
	h.Write([]byte(name))
	r := rand.New(rand.NewSource(cseed ^ int64(h.Sum64()>>1)))
	b := make([]byte, size)
	r.Read(b)
	return b
}

// answer is the normalised observation of one read: every field always present.
func answer(kind string, data []byte, val string, names []string, msg string) map[string]any {
	sum := sha256.Sum256(data)
	d := []int{}
	if len(data) <= 32 {
		for _, x := range data {
			d = append(d, int(x))
		}
	}
	if names == nil {
		names = []string{}
	}
	a := map[string]any{"kind": kind, "n": len(data), "sha": hex.EncodeToString(sum[:8]), "data": d, "val": val, "names": names}
	if msg != "" {
		a["msg"] = msg // error text: for the reader of the trace, not part of the judged answer
	}
	return a
}

func readAnswer(b objstore.Bucket, r io.ReadCloser, err error, read int) map[string]any {
	if err != nil {
		if b.IsObjNotFoundErr(err) {
			return answer("notfound", nil, "", nil, "")
		}
		return answer("error", nil, "", nil, err.Error())
	}
	defer r.Close()
	var data []byte
	var rerr error
	if read < 0 {
		data, rerr = io.ReadAll(r)
	} else {
		buf := make([]byte, read)
		var n int
		n, rerr = io.ReadFull(r, buf)
		data = buf[:n]
		if rerr == io.EOF || rerr == io.ErrUnexpectedEOF {
			rerr = nil // the object is shorter than the requested prefix
		}
	}
	if rerr != nil {
		return answer("error", data, "", nil, rerr.Error())
	}
	return answer("data", data, "", nil, "")
}

// doOp executes one read on bucket b and returns the normalised answer.
func doOp(b objstore.Bucket, op map[string]any) (ans map[string]any) {
	defer func() {
		if r := recover(); r != nil {
			ans = answer("panic", nil, "", nil, fmt.Sprint(r))
		}
	}()
	ctx := context.Background()
	name := vt.Str(op["name"])
	switch vt.Str(op["op"]) {
	case "getrange":
		r, err := b.GetRange(ctx, name, vt.Int64(op["off"]), vt.Int64(op["len"]))
		return readAnswer(b, r, err, -1)
	case "get":
		r, err := b.Get(ctx, name)
		return readAnswer(b, r, err, vt.Int(op["read"]))
	case "exists":
		ok, err := b.Exists(ctx, name)
		if err != nil {
			return answer("error", nil, "", nil, err.Error())
		}
		return answer("bool", nil, strconv.FormatBool(ok), nil, "")
	case "attrs":
		a, err := b.Attributes(ctx, name)
		if err != nil {
			if b.IsObjNotFoundErr(err) {
				return answer("notfound", nil, "", nil, "")
			}
			return answer("error", nil, "", nil, err.Error())
		}
		return answer("attrs", nil, fmt.Sprintf("%d@%s", a.Size, a.LastModified.UTC().Format(time.RFC3339Nano)), nil, "")
	case "iter":
		var names []string
		var opts []objstore.IterOption
		if vt.Bool(op["rec"]) {
			opts = append(opts, objstore.WithRecursiveIter())
		}
		err := b.Iter(ctx, name, func(s string) error { names = append(names, s); return nil }, opts...)
		if err != nil {
			return answer("error", nil, "", names, err.Error())
		}
		return answer("names", nil, "", names, "")
	}
	panic("unknown op " + vt.Str(op["op"]))
}

// fullOp fills in the fields every op record carries.
func fullOp(op map[string]any) map[string]any {
	for _, k := range []string{"off", "len", "read"} {
		if _, ok := op[k]; !ok {
			op[k] = 0
		}
	}
	if _, ok := op["rec"]; !ok {
		op["rec"] = false
	}
	if _, ok := op["name"]; !ok {
		op["name"] = ""
	}
	return op
}

type childOut struct {
	w *bufio.Writer
}

// line appends a completed trace line ("L " prefix in the child's output stream).
func (o *childOut) line(ev map[string]any) {
	b, err := json.Marshal(ev)
	if err != nil {
		panic(err)
	}
	o.w.WriteString("L ")
	o.w.Write(b)
	o.w.WriteByte('\n')
}

// pending records ("P " prefix, flushed) the read about to be executed, with the bucket's answer,
// so that the parent can log it should the process die inside the caching bucket.
func (o *childOut) pending(idx int, ev map[string]any) {
	ev["_idx"] = idx
	b, err := json.Marshal(ev)
	delete(ev, "_idx")
	if err != nil {
		panic(err)
	}
	o.w.WriteString("P ")
	o.w.Write(b)
	o.w.WriteByte('\n')
	o.w.Flush()
}

func runCase(out *childOut, idx int, id int, c vt.Case) {
	c = vt.Normalize(c)
	S, M, mc := vt.Int64(c["S"]), vt.Int(c["M"]), vt.Int(c["mc"])
	cseed := vt.Int64(c["cseed"])
	raw := objstore.NewInMemBucket()
	sizes := map[string]int64{}
	for name, sz := range vt.Map(c["objs"]) {
		data := content(cseed, name, vt.Int(sz))
		if err := raw.Upload(context.Background(), name, bytes.NewReader(data)); err != nil {
			panic(err)
		}
		sizes[name] = int64(len(data))
	}
	lc := &lossyCache{m: map[string][]byte{}, rnd: rand.New(rand.NewSource(cseed + 17)), drop: vt.Int(c["drop"])}
	rec := &recBucket{Bucket: raw}
	var cb objstore.Bucket
	yamlBackend := vt.Str(c["backend"]) == "yaml"
	if yamlBackend {
		// exactly what the store gateway builds from --store.caching-bucket.config, with the real
		// in-memory cache backend (LRU with max size / max item size, TTLs on real time)
		ttl := "1h"
		if ms := vt.Int(c["ttl_ms"]); ms > 0 {
			ttl = fmt.Sprintf("%dms", ms)
		}
		y := fmt.Sprintf(`type: IN-MEMORY
config:
  max_size: %dB
  max_item_size: %dB
chunk_subrange_size: %d
max_chunks_get_range_requests: %d
metafile_max_size: %dB
chunk_object_attrs_ttl: %s
chunk_subrange_ttl: %s
blocks_iter_ttl: %s
metafile_exists_ttl: %s
metafile_doesnt_exist_ttl: %s
metafile_content_ttl: %s
`, vt.Int(c["max_size"]), vt.Int(c["max_item"]), S, M, mc, ttl, ttl, ttl, ttl, ttl, ttl)
		b, err := storecache.NewCachingBucketFromYaml([]byte(y), rec, log.NewNopLogger(), nil, nil, "verif")
		if err != nil {
			panic(err)
		}
		cb = b
	} else {
		cfg := cache.NewCachingBucketConfig()
		all := func(string) bool { return true }
		const ttl = time.Hour
		cfg.CacheGetRange("range", lc, all, S, ttl, ttl, M)
		cfg.CacheGet("get", lc, all, mc, ttl, ttl, ttl)
		cfg.CacheExists("exists", lc, all, ttl, ttl)
		cfg.CacheAttributes("attrs", lc, all, ttl)
		cfg.CacheIter("iter", lc, all, ttl, storecache.JSONIterCodec{}, "h")
		b, err := storecache.NewCachingBucket(rec, cfg, log.NewNopLogger(), nil)
		if err != nil {
			panic(err)
		}
		cb = b
	}
	// the first line of a case carries its input (for replay); a case without reads gets a header
	first := true
	head := func(ev map[string]any) map[string]any {
		if first {
			ev["in"], ev["kf"] = c, ""
			first = false
		}
		return ev
	}
	for i, o := range vt.List(c["ops"]) {
		op := fullOp(vt.Map(o))
		if vt.Str(op["op"]) == "evict" {
			lc.evict(vt.Strs(op["kinds"]), vt.Str(op["name"]), vt.Ints(op["except"]))
			continue
		}
		name := vt.Str(op["name"])
		size, ok := sizes[name]
		if !ok {
			size = -1
		}
		quiet := vt.Bool(op["quiet"]) // priming read of a TLC case: executed, logged only if it dies
		hit, attr := lc.snapshot(name, size, S)
		mk := func(o map[string]any, snap bool) map[string]any {
			return map[string]any{"ev": "op", "case": id, "i": i, "op": o["op"], "name": name, "off": o["off"], "len": o["len"],
				"read": o["read"], "rec": o["rec"], "size": size, "S": S, "M": M, "hit": hit, "attrhit": attr, "snap": snap,
				"want": doOp(raw, o), "got": answer("panic", nil, "", nil, "the process died inside this read"), "breqs": [][]int64{}}
		}
		if vt.Str(op["op"]) == "pgetrange" {
			// several GetRange calls on the same object at the same time (overlapping ranges, possibly a
			// cold cache): every one must answer like the bucket.  One line per call; no model conformance.
			var evs []map[string]any
			for _, r := range vt.List(op["ranges"]) {
				rr := vt.Ints(r)
				evs = append(evs, mk(fullOp(map[string]any{"op": "getrange", "name": name, "off": rr[0], "len": rr[1]}), false))
			}
			if len(evs) == 0 {
				continue
			}
			evs[0] = head(evs[0])
			out.pending(idx, evs[0])
			var wg sync.WaitGroup
			for k := range evs {
				wg.Add(1)
				go func(ev map[string]any) {
					defer wg.Done()
					ev["got"] = doOp(cb, map[string]any{"op": "getrange", "name": name, "off": ev["off"], "len": ev["len"]})
				}(evs[k])
			}
			wg.Wait()
			rec.take()
			for _, ev := range evs {
				out.line(ev)
			}
			continue
		}
		ev := mk(op, !yamlBackend)
		if quiet {
			ev["in"], ev["kf"] = c, ""
			out.pending(idx, ev)
			doOp(cb, op)
			continue
		}
		ev = head(ev)
		out.pending(idx, ev)
		rec.take()
		ev["got"] = doOp(cb, op)
		ev["breqs"] = rec.take()
		out.line(ev)
	}
	if first {
		out.line(head(map[string]any{"ev": "case", "case": id}))
	}
}

// ---- case generation (deterministic in VERIF_SEED / VERIF_CASES, so parent and child agree) ----

func evictOp(kinds []string, name string, except []int) map[string]any {
	if except == nil {
		except = []int{}
	}
	return map[string]any{"op": "evict", "kinds": kinds, "name": name, "except": except}
}

func genCases(t *testing.T) []vt.Case {
	rnd := vt.Rand()
	var out []vt.Case
	scales := []int{1, 1, 3, 1000, 16384}
	for _, tc := range vt.TLCCases(t) {
		k := scales[rnd.Intn(len(scales))]
		n := vt.Int(tc["n"])
		c := vt.Case{"src": "tlc-" + vt.Str(tc["kind"]), "k": k, "objs": map[string]any{"a": n * k},
			"S": vt.Int(tc["S"]) * k, "M": vt.Int(tc["M"]), "mc": 8 * k, "drop": 0, "cseed": rnd.Int63n(1 << 40)}
		var ops []any
		switch vt.Str(tc["kind"]) {
		case "rng":
			// bring the cache into the abstract state (hit, attr) through the real code: read the whole
			// object, then lose everything but the wanted entries
			keep := []int{}
			for _, h := range vt.Ints(tc["hit"]) {
				keep = append(keep, h*k)
			}
			plen := n * k
			if plen == 0 {
				plen = 1
			}
			ops = append(ops, map[string]any{"op": "getrange", "name": "a", "off": 0, "len": plen, "quiet": true})
			ops = append(ops, evictOp([]string{"subrange"}, "a", keep))
			if !vt.Bool(tc["attr"]) {
				ops = append(ops, evictOp([]string{"attrs"}, "a", nil))
			}
			ops = append(ops, map[string]any{"op": "getrange", "name": "a", "off": vt.Int(tc["off"]) * k, "len": vt.Int(tc["len"]) * k})
		case "hist":
			c["mc"] = vt.Int(tc["mc"]) * k
			for _, o := range vt.List(tc["ops"]) {
				ao := vt.Map(o)
				a, b := vt.Int(ao["a"]), vt.Int(ao["b"])
				switch vt.Str(ao["op"]) {
				case "get":
					rd := a
					if rd > 0 {
						rd *= k
					}
					ops = append(ops, map[string]any{"op": "get", "name": ao["name"], "read": rd})
				case "getrange":
					ops = append(ops, map[string]any{"op": "getrange", "name": ao["name"], "off": a * k, "len": b * k})
				case "evict":
					ops = append(ops, evictOp([]string{vt.Str(ao["name"])}, "*", nil))
				default:
					ops = append(ops, map[string]any{"op": ao["op"], "name": ao["name"]})
				}
			}
		default:
			t.Fatalf("unknown TLC case kind %v", tc["kind"])
		}
		c["ops"] = ops
		out = append(out, c)
	}
	// seeded random concrete cases
	names := []string{"a", "b", "dir/c", "dir/d", "dir/sub/e", "zz"}
	subSizes := []int{1, 2, 3, 7, 16, 100, 1000, 16000, 65536}
	nrand := vt.Pick(120, 2000)
	for i := 0; i < nrand; i++ {
		S := subSizes[rnd.Intn(len(subSizes))]
		maxSize := 40 * S
		if maxSize > 200000 {
			maxSize = 200000
		}
		objs := map[string]any{}
		var present []string
		for _, nm := range names {
			if rnd.Intn(2) == 0 {
				continue
			}
			var sz int
			switch rnd.Intn(5) {
			case 0:
				sz = 0
			case 1:
				sz = S * (1 + rnd.Intn(5)) // aligned
			case 2:
				sz = 1 + rnd.Intn(2*S)
			default:
				sz = rnd.Intn(maxSize + 1)
			}
			objs[nm] = sz
			present = append(present, nm)
		}
		c := vt.Case{"src": "rand", "objs": objs, "S": S, "M": []int{0, 0, 1, 2, 3, 5}[rnd.Intn(6)],
			"mc": []int{0, 10, 1000, 1 << 20}[rnd.Intn(4)], "drop": []int{0, 20, 60}[rnd.Intn(3)], "cseed": rnd.Int63n(1 << 40)}
		nops := 5 + rnd.Intn(21)
		var ops []any
		for j := 0; j < nops; j++ {
			nm := names[rnd.Intn(len(names))]
			if len(present) > 0 && rnd.Intn(4) > 0 {
				nm = present[rnd.Intn(len(present))]
			}
			sz := 0
			if v, ok := objs[nm]; ok {
				sz = v.(int)
			}
			switch r := rnd.Intn(20); {
			case r < 9:
				// offsets and ends biased to subrange boundaries and to the object's end
				pick := func() int {
					switch rnd.Intn(4) {
					case 0:
						return S*rnd.Intn(sz/S+2) + rnd.Intn(3) - 1
					case 1:
						return sz + rnd.Intn(3) - 1
					default:
						return rnd.Intn(sz + S + 1)
					}
				}
				off := pick()
				if off < 0 {
					off = 0
				}
				end := pick()
				ln := end - off
				if ln <= 0 {
					ln = 1 + rnd.Intn(2*S)
				}
				if rnd.Intn(25) == 0 {
					ln = -1
				}
				ops = append(ops, map[string]any{"op": "getrange", "name": nm, "off": off, "len": ln})
			case r < 12:
				rd := -1
				if rnd.Intn(3) == 0 {
					rd = rnd.Intn(sz + 2)
				}
				ops = append(ops, map[string]any{"op": "get", "name": nm, "read": rd})
			case r < 14:
				ops = append(ops, map[string]any{"op": "exists", "name": nm})
			case r < 16:
				ops = append(ops, map[string]any{"op": "attrs", "name": nm})
			case r < 17:
				ops = append(ops, map[string]any{"op": "iter", "name": []string{"", "dir/", "dir/sub/", "nodir/"}[rnd.Intn(4)], "rec": rnd.Intn(2) == 0})
			default:
				kinds := [][]string{{"all"}, {"subrange"}, {"attrs"}, {"content"}, {"exists"}, {"iter"}, {"subrange", "attrs"}}[rnd.Intn(7)]
				var except []int
				for o := 0; o < sz; o += S {
					if rnd.Intn(2) == 0 {
						except = append(except, o)
					}
				}
				ops = append(ops, evictOp(kinds, []string{"*", nm}[rnd.Intn(2)], except))
			}
		}
		c["ops"] = ops
		out = append(out, c)
	}
	// store-gateway configuration (NewCachingBucketFromYaml) over the real in-memory cache backend:
	// block-shaped object names so that the chunks / meta.json / deletion-mark.json / root-Iter rules
	// match; a tiny LRU (real evictions, items above max_item_size are never cached), sometimes
	// millisecond TTLs (entries expire on real time: just another way of losing entries).
	blocks := []string{"01ARZ3NDEKTSV4RRFFQ69G5FAV", "01BX5ZZKBKACTAV9WEVGEMMVRZ"}
	ynames := []string{}
	for _, b := range blocks {
		ynames = append(ynames, b+"/chunks/000001", b+"/chunks/000002", b+"/meta.json", b+"/deletion-mark.json", b+"/index")
	}
	nyaml := vt.Pick(60, 1200)
	for i := 0; i < nyaml; i++ {
		S := []int{1, 3, 16, 100, 1000, 16000}[rnd.Intn(6)]
		maxSize := 40 * S
		objs := map[string]any{}
		var present []string
		for _, nm := range ynames {
			if rnd.Intn(3) == 0 {
				continue // absent (e.g. no deletion mark)
			}
			sz := rnd.Intn(maxSize + 1)
			if rnd.Intn(4) == 0 {
				sz = S * rnd.Intn(6)
			}
			objs[nm] = sz
			present = append(present, nm)
		}
		maxItem := []int{S / 2, S, 4 * S, 1 << 20}[rnd.Intn(4)]
		if maxItem < 1 {
			maxItem = 1
		}
		maxCache := maxItem * (1 + rnd.Intn(8))
		if rnd.Intn(3) == 0 {
			maxCache = 1 << 24
			if maxItem > maxCache {
				maxItem = maxCache
			}
		}
		c := vt.Case{"src": "yaml", "backend": "yaml", "objs": objs, "S": S, "M": []int{0, 1, 2, 3}[rnd.Intn(4)],
			"mc": []int{1, 100, 1 << 20}[rnd.Intn(3)], "drop": 0, "cseed": rnd.Int63n(1 << 40),
			"max_size": maxCache, "max_item": maxItem, "ttl_ms": []int{0, 0, 0, 2}[rnd.Intn(4)]}
		var ops []any
		for j, nops := 0, 6+rnd.Intn(20); j < nops; j++ {
			nm := ynames[rnd.Intn(len(ynames))]
			if len(present) > 0 && rnd.Intn(4) > 0 {
				nm = present[rnd.Intn(len(present))]
			}
			sz := 0
			if v, ok := objs[nm]; ok {
				sz = v.(int)
			}
			rng := func() []int {
				off := rnd.Intn(sz + S + 1)
				if rnd.Intn(3) == 0 {
					off = S * rnd.Intn(sz/S+2)
				}
				return []int{off, 1 + rnd.Intn(sz+2*S)}
			}
			switch r := rnd.Intn(20); {
			case r < 7:
				rr := rng()
				ops = append(ops, map[string]any{"op": "getrange", "name": nm, "off": rr[0], "len": rr[1]})
			case r < 10:
				var rs []any
				for k, n := 0, 2+rnd.Intn(4); k < n; k++ {
					rs = append(rs, rng())
				}
				ops = append(ops, map[string]any{"op": "pgetrange", "name": nm, "ranges": rs})
			case r < 13:
				rd := -1
				if rnd.Intn(3) == 0 {
					rd = rnd.Intn(sz + 2)
				}
				ops = append(ops, map[string]any{"op": "get", "name": nm, "read": rd})
			case r < 16:
				ops = append(ops, map[string]any{"op": "exists", "name": nm})
			case r < 18:
				ops = append(ops, map[string]any{"op": "attrs", "name": nm})
			default:
				ops = append(ops, map[string]any{"op": "iter", "name": []string{"", "", blocks[0] + "/", blocks[1] + "/chunks/"}[rnd.Intn(4)], "rec": rnd.Intn(3) == 0})
			}
		}
		c["ops"] = ops
		out = append(out, c)
	}
	// concurrent overlapping GetRange calls through the lossy test cache (cold and partly warm)
	nconc := vt.Pick(60, 1200)
	for i := 0; i < nconc; i++ {
		S := []int{1, 2, 3, 7, 100, 16000}[rnd.Intn(6)]
		sz := rnd.Intn(30*S + 1)
		c := vt.Case{"src": "conc", "objs": map[string]any{"a": sz}, "S": S, "M": []int{0, 1, 2, 3}[rnd.Intn(4)], "mc": 0,
			"drop": []int{0, 0, 30}[rnd.Intn(3)], "cseed": rnd.Int63n(1 << 40)}
		var ops []any
		for j, n := 0, 1+rnd.Intn(3); j < n; j++ {
			var rs []any
			for k, m := 0, 2+rnd.Intn(5); k < m; k++ {
				off := rnd.Intn(sz + 1)
				rs = append(rs, []int{off, 1 + rnd.Intn(sz-off+S)})
			}
			ops = append(ops, map[string]any{"op": "pgetrange", "name": "a", "ranges": rs})
			if rnd.Intn(2) == 0 {
				ops = append(ops, evictOp([]string{[]string{"subrange", "attrs", "all"}[rnd.Intn(3)]}, "*", nil))
			}
		}
		c["ops"] = ops
		out = append(out, c)
	}
	return out
}

func TestC14(t *testing.T) {
	if os.Getenv("VERIF_C14_CHILD") != "" {
		c14Child(t)
		return
	}
	tr := vt.Open(t)
	defer tr.Close()
	scratch := os.Getenv("VERIF_SCRATCH")
	if scratch == "" {
		scratch = t.TempDir()
	}
	from, crashes := 0, 0
	for part := 0; ; part++ {
		outp := filepath.Join(scratch, fmt.Sprintf("c14-part-%d-%d.ndjson", os.Getpid(), part))
		cmd := exec.Command(os.Args[0], "-test.run", "^TestC14$", "-test.timeout", "0")
		cmd.Env = append(os.Environ(), "VERIF_C14_CHILD=1", "VERIF_C14_FROM="+strconv.Itoa(from), "VERIF_C14_OUT="+outp)
		var stderr bytes.Buffer
		cmd.Stdout = &stderr
		cmd.Stderr = &stderr
		// a read that makes no progress for stallAfter is a hang of the code under test: the child is
		// killed and the read in flight is logged as got.kind = "hang"
		hung := false
		err := cmd.Start()
		if err == nil {
			done := make(chan error, 1)
			go func() { done <- cmd.Wait() }()
			lastSize, lastChange := int64(-1), time.Now()
		wait:
			for {
				select {
				case err = <-done:
					break wait
				case <-time.After(500 * time.Millisecond):
					var sz int64
					if fi, serr := os.Stat(outp); serr == nil {
						sz = fi.Size()
					}
					if sz != lastSize {
						lastSize, lastChange = sz, time.Now()
					} else if time.Since(lastChange) > stallAfter {
						hung = true
						cmd.Process.Kill()
						err = <-done
						break wait
					}
				}
			}
		}
		// copy what the child recorded; remember the last read that was started but not completed
		var lastP []byte
		if f, ferr := os.Open(outp); ferr == nil {
			sc := bufio.NewScanner(f)
			sc.Buffer(make([]byte, 1<<20), 1<<28)
			for sc.Scan() {
				b := sc.Bytes()
				if len(b) < 2 {
					continue
				}
				if b[0] == 'P' {
					lastP = append(lastP[:0], b[2:]...)
					continue
				}
				lastP = lastP[:0]
				var ev vt.Event
				dec := json.NewDecoder(bytes.NewReader(b[2:]))
				dec.UseNumber()
				if dec.Decode(&ev) == nil {
					tr.Emit(ev)
				}
			}
			f.Close()
			os.Remove(outp)
		}
		if err == nil {
			return
		}
		// the child died: log the read that was in flight as a panic and continue after that case
		if len(lastP) == 0 {
			t.Fatalf("child failed outside a read: %v\n%s", err, tail(stderr.String(), 4000))
		}
		var pend vt.Event
		dec := json.NewDecoder(bytes.NewReader(lastP))
		dec.UseNumber()
		if derr := dec.Decode(&pend); derr != nil {
			t.Fatalf("child failed, unreadable pending line: %v %v\n%s", err, derr, tail(stderr.String(), 4000))
		}
		idx := vt.Int(pend["_idx"])
		delete(pend, "_idx")
		if g, ok := pend["got"].(map[string]any); ok {
			g["msg"] = "process died: " + firstLines(stderr.String(), 3)
			if hung {
				g["kind"] = "hang"
				g["msg"] = fmt.Sprintf("no progress for %v inside this read; process killed", stallAfter)
				crashes += 8 // hangs are expensive: stop after three
			}
		} else {
			t.Fatalf("pending line without got: %v", pend)
		}
		tr.Emit(pend)
		crashes++
		from = idx + 1
		if crashes >= 25 || os.Getenv("VERIF_REPLAY") != "" {
			t.Logf("stopping after %d crashed cases", crashes)
			return
		}
	}
}

func tail(s string, n int) string {
	if len(s) > n {
		return s[len(s)-n:]
	}
	return s
}

func firstLines(s string, n int) string {
	out := ""
	for i, l := range bytes.Split([]byte(s), []byte("\n")) {
		if i >= n {
			break
		}
		out += string(l) + " | "
	}
	if len(out) > 300 {
		out = out[:300]
	}
	return out
}

func c14Child(t *testing.T) {
	from, _ := strconv.Atoi(os.Getenv("VERIF_C14_FROM"))
	f, err := os.Create(os.Getenv("VERIF_C14_OUT"))
	if err != nil {
		t.Fatal(err)
	}
	out := &childOut{w: bufio.NewWriterSize(f, 1<<20)}
	defer func() { out.w.Flush(); f.Close() }()
	if rc := vt.Replay(t); rc != nil {
		if from == 0 {
			runCase(out, 0, 1, rc)
		}
		return
	}
	cases := genCases(t)
	if len(cases) == 0 {
		t.Fatalf("no cases generated")
	}
	for i := from; i < len(cases); i++ {
		runCase(out, i, i+1, cases[i])
	}
}
