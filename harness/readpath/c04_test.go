// Package readpath drives the full Thanos read path (stores -> ProxyStore -> querier) for
// property C04 (and the querier extensions judged in the same check).
//
// A case is one abstract WORLD (replica series on a time grid, cut into chunks that are placed
// on stores; format of spec/ReadPathMC.tla) plus one CONFIGURATION (dedup on/off, replica label
// list, which stores strip replica labels themselves, query range, partial response, retrieval
// strategy, frame / batch sizes, fake or TSDB-backed stores, failing store).  The harness builds
// real XOR chunks, serves them from fake store.Client implementations (or real TSDBStores),
// runs query.NewQueryableCreator(...).Querier(mint, maxt).Select(...) and records label sets and
// samples of the returned series set.  spec/C04Trace.tla judges every line.
package readpath

import (
	"context"
	"errors"
	"fmt"
	"math"
	"math/rand"
	"sort"
	"strconv"
	"strings"
	"sync"
	"testing"
	"time"

	"github.com/prometheus/prometheus/model/labels"
	"github.com/prometheus/prometheus/storage"
	"github.com/prometheus/prometheus/tsdb"
	"github.com/prometheus/prometheus/tsdb/chunkenc"
	"go.uber.org/atomic"
	"google.golang.org/grpc"

	"github.com/thanos-io/thanos/pkg/component"
	"github.com/thanos-io/thanos/pkg/dedup"
	"github.com/thanos-io/thanos/pkg/query"
	"github.com/thanos-io/thanos/pkg/store"
	"github.com/thanos-io/thanos/pkg/store/labelpb"
	"github.com/thanos-io/thanos/pkg/store/storepb"
	storetestutil "github.com/thanos-io/thanos/pkg/store/storepb/testutil"

	"verif/harness/vt"
)

// The real code sees epoch-like millisecond timestamps; the trace records them relative to
// baseT (TLC integers are 32 bit).
const baseT = int64(1_700_000_000_000)

const kfKey = "overlap-penalty-gap"

// ---------------------------------------------------------------------------------------------
// world

// positions lo..hi (1-based) of the replica's samples, store; ds: the store also holds this chunk
// downsampled (aggregates per window of world.res grid points) and serves that form when the
// request's max resolution window allows it.
type chunkSpec struct {
	lo, hi, st int
	ds         bool
}

type repSpec struct {
	g, id  int
	rl     string // which replica labels the series carries: "r", "s", "rs"
	off    int64
	own    bool // own values (non-identical replicas) or the logical values
	pts    []int
	chunks []chunkSpec
}

type sample struct {
	t int64 // relative to baseT
	v int64
}

type replica struct {
	spec    repSpec
	lbls    labels.Labels
	samples []sample
}

type world struct {
	step  int64
	shape string
	res   int // grid points per downsampling window (0 = no downsampled data in this world)
	reps  []replica
}

func (w world) resMs() int64 { return int64(w.res) * w.step }

func optInt(v any) int {
	if v == nil {
		return 0
	}
	return vt.Int(v)
}

// aggrKinds in the order of storepb.Aggr; "avg" is what the default COUNT+SUM selection yields.
var aggrKinds = []string{"count", "sum", "min", "max", "counter", "avg"}

// aggForm: the downsampled form of a chunk: one sample per window (timestamp = end of the window on
// the replica's grid) and per aggregate.  Values are multiples of 60 in such worlds, so avg is integral
// for windows of <= 6 points.
func aggForm(w world, r *replica, c chunkSpec) map[string][]sample {
	out := map[string][]sample{}
	for _, k := range aggrKinds {
		out[k] = []sample{}
	}
	if !c.ds || w.res == 0 {
		return out
	}
	type acc struct {
		t                        int64
		cnt, sum, min, max, last int64
	}
	var ws []acc
	for p := c.lo; p <= c.hi; p++ {
		idx := r.spec.pts[p-1]
		win := int64((idx + w.res - 1) / w.res)
		t := win*int64(w.res)*w.step + r.spec.off
		v := r.samples[p-1].v
		if len(ws) == 0 || ws[len(ws)-1].t != t {
			ws = append(ws, acc{t: t, min: v, max: v})
		}
		a := &ws[len(ws)-1]
		a.cnt++
		a.sum += v
		if v < a.min {
			a.min = v
		}
		if v > a.max {
			a.max = v
		}
		a.last = v
	}
	for _, a := range ws {
		out["count"] = append(out["count"], sample{a.t, a.cnt})
		out["sum"] = append(out["sum"], sample{a.t, a.sum})
		out["min"] = append(out["min"], sample{a.t, a.min})
		out["max"] = append(out["max"], sample{a.t, a.max})
		out["counter"] = append(out["counter"], sample{a.t, a.last})
		out["avg"] = append(out["avg"], sample{a.t, a.sum / a.cnt})
	}
	return out
}

func parseWorld(c vt.Case) world {
	w := world{step: vt.Int64(c["step"]), shape: vt.Str(c["shape"]), res: optInt(c["res"])}
	vm := int64(1)
	if w.res > 0 {
		vm = 60
	}
	for _, x := range vt.List(c["reps"]) {
		m := vt.Map(x)
		r := repSpec{g: vt.Int(m["g"]), id: vt.Int(m["id"]), rl: vt.Str(m["rl"]), off: vt.Int64(m["off"]),
			own: vt.Bool(m["own"]), pts: vt.Ints(m["pts"])}
		for _, y := range vt.List(m["chunks"]) {
			cm := vt.Map(y)
			r.chunks = append(r.chunks, chunkSpec{vt.Int(cm["lo"]), vt.Int(cm["hi"]), vt.Int(cm["st"]), vt.Bool(cm["ds"])})
		}
		b := labels.NewBuilder(labels.EmptyLabels())
		b.Set("__name__", "m")
		if w.shape == "z" {
			b.Set("zone", strconv.Itoa(r.g)) // sorts after the replica labels
		} else {
			b.Set("job", strconv.Itoa(r.g)) // sorts before the replica labels
		}
		switch r.rl {
		case "r":
			b.Set("replica", strconv.Itoa(r.id))
		case "s":
			b.Set("rule_replica", strconv.Itoa(r.id))
		case "rs":
			b.Set("replica", strconv.Itoa(r.id))
			b.Set("rule_replica", "x")
		}
		rep := replica{spec: r, lbls: b.Labels()}
		for _, p := range r.pts {
			v := int64(p)
			if r.own {
				v = int64(1000*r.id + p)
			}
			rep.samples = append(rep.samples, sample{t: int64(p)*w.step + r.off, v: v * vm})
		}
		w.reps = append(w.reps, rep)
	}
	return w
}

func lblMap(l labels.Labels) map[string]any {
	m := map[string]any{}
	l.Range(func(x labels.Label) { m[x.Name] = x.Value })
	return m
}

func pairs(ss []sample) [][]int64 {
	out := make([][]int64, len(ss))
	for i, s := range ss {
		out[i] = []int64{s.t, s.v}
	}
	return out
}

// worldEvent is the concrete world the trace spec judges against (built from the case alone).
func worldEvent(w world) []any {
	out := []any{}
	for i := range w.reps {
		r := &w.reps[i]
		chs := []any{}
		for _, c := range r.spec.chunks {
			agg := map[string]any{}
			for k, v := range aggForm(w, r, c) {
				agg[k] = pairs(v)
			}
			chs = append(chs, map[string]any{"lo": c.lo, "hi": c.hi, "st": c.st, "ds": c.ds && w.res > 0, "agg": agg})
		}
		out = append(out, map[string]any{"lbls": lblMap(r.lbls), "id": 10*r.spec.g + r.spec.id,
			"samples": pairs(r.samples), "chunks": chs})
	}
	return out
}

// ---------------------------------------------------------------------------------------------
// configuration

type config struct {
	dedup  bool
	rls    []string // replica label names given to the querier
	strip  []bool   // per store (1-based index - 1): store strips replica labels itself
	lo, hi int64    // query range, relative
	pr     bool     // partial response
	retr   string   // "eager" | "lazy"
	frame  int      // max chunks per frame a fake store sends (0 = whole series in one frame)
	batch  int      // querier's series response batch size
	tsdb   bool     // one real TSDB + TSDBStore per replica instead of fake stores
	fail   string   // "" | "open" | "recv": an additional store that fails
	tight  bool     // stores advertise their real time range (store pruning can apply)
	sel    int      // > 0: store matchers select only store-<sel> (storeDebugMatchers on __address__)
	down   int      // > 0: store-<down> holds its data but fails when the stream is opened
	fn     string   // select hints: function ("" = nil hints)
	rng    int64    // select hints: range in ms
	maxres int64    // querier's max source resolution in ms
	spc    int      // TSDB mode: samples per head chunk (0 = default 120)
	tframe int      // TSDB mode: TSDBStore frame byte budget (0 = default 1 MiB)
	skip   bool     // querier created with skipChunks (series metadata call)
	mid    bool     // the down store fails mid-stream (after half of its frames) instead of at open
	allagg bool     // fake stores put every aggregate into a downsampled chunk, not only the requested ones
	lv     string   // label name asked with LabelValues
}

func parseConfig(c vt.Case) config {
	m := vt.Map(c["cfg"])
	cfg := config{dedup: vt.Bool(m["dedup"]), rls: vt.Strs(m["rls"]), lo: vt.Int64(m["lo"]), hi: vt.Int64(m["hi"]),
		pr: vt.Bool(m["pr"]), retr: vt.Str(m["retr"]), frame: vt.Int(m["frame"]), batch: vt.Int(m["batch"]),
		tsdb: vt.Bool(m["tsdb"]), fail: vt.Str(m["fail"]), tight: vt.Bool(m["tight"]),
		sel: vt.Int(m["sel"]), down: vt.Int(m["down"]), fn: vt.Str(m["fn"]), rng: vt.Int64(m["rng"]), maxres: vt.Int64(m["maxres"]),
		spc: vt.Int(m["spc"]), tframe: vt.Int(m["tframe"]),
		skip: vt.Bool(m["skip"]), mid: vt.Bool(m["mid"]), allagg: vt.Bool(m["allagg"]), lv: vt.Str(m["lv"])}
	if cfg.lv == "" {
		cfg.lv = "replica"
	}
	for _, b := range vt.List(m["strip"]) {
		cfg.strip = append(cfg.strip, vt.Bool(b))
	}
	return cfg
}

func (c config) toMap() map[string]any {
	return map[string]any{"dedup": c.dedup, "rls": c.rls, "strip": c.strip, "lo": c.lo, "hi": c.hi, "pr": c.pr,
		"retr": c.retr, "frame": c.frame, "batch": c.batch, "tsdb": c.tsdb, "fail": c.fail, "tight": c.tight,
		"sel": c.sel, "down": c.down, "fn": c.fn, "rng": c.rng, "maxres": c.maxres,
		"spc": c.spc, "tframe": c.tframe, "skip": c.skip, "mid": c.mid, "allagg": c.allagg, "lv": c.lv}
}

// inScope: the store takes part in the query and answers (ReadPath!Scoped).
func (c config) inScope(st int) bool {
	return (c.sel == 0 || c.sel == st) && c.down != st
}

func (c config) effectiveRL() map[string]bool {
	m := map[string]bool{}
	if c.dedup {
		for _, n := range c.rls {
			m[n] = true
		}
	}
	return m
}

// ---------------------------------------------------------------------------------------------
// fake store

type seriesReq struct {
	mint, maxt int64
	without    []string
	matchers   int
	pr         string
	maxRes     int64
	aggrs      int
}

type fakeStore struct {
	storepb.StoreClient // LabelNames / LabelValues are not used

	name   string
	w      *world
	st     int // store number; serves the chunks placed on it
	strip  bool
	frame  int
	fail   string // "" | "open" | "recv" (after all frames) | "mid" (after half of the frames)
	allagg bool

	mu   sync.Mutex
	reqs []seriesReq
}

func xorChunk(ss []sample) *storepb.AggrChunk {
	c := chunkenc.NewXORChunk()
	app, err := c.Appender()
	if err != nil {
		panic(err)
	}
	for _, s := range ss {
		app.Append(baseT+s.t, float64(s.v))
	}
	return &storepb.AggrChunk{MinTime: baseT + ss[0].t, MaxTime: baseT + ss[len(ss)-1].t,
		Raw: &storepb.Chunk{Type: storepb.Chunk_XOR, Data: c.Bytes()}}
}

func xorOf(ss []sample, dupLast bool) *storepb.Chunk {
	c := chunkenc.NewXORChunk()
	app, err := c.Appender()
	if err != nil {
		panic(err)
	}
	for _, s := range ss {
		app.Append(baseT+s.t, float64(s.v))
	}
	if dupLast && len(ss) > 0 { // counter aggregate: the true last value is repeated at the same timestamp
		l := ss[len(ss)-1]
		app.Append(baseT+l.t, float64(l.v))
	}
	return &storepb.Chunk{Type: storepb.Chunk_XOR, Data: c.Bytes()}
}

// chunkFor: the chunk as this store serves it for the request: downsampled (the requested aggregates)
// when the store holds that form and the request's max resolution window allows it, else raw.
func (f *fakeStore) chunkFor(r *replica, c chunkSpec, req *storepb.SeriesRequest) *storepb.AggrChunk {
	if !(c.ds && f.w.res > 0 && req.MaxResolutionWindow >= f.w.resMs()) {
		return xorChunk(r.samples[c.lo-1 : c.hi])
	}
	a := aggForm(*f.w, r, c)
	want := map[storepb.Aggr]bool{}
	for _, x := range req.Aggregates {
		want[x] = true
	}
	if f.allagg || len(req.Aggregates) == 0 {
		for _, x := range []storepb.Aggr{storepb.Aggr_COUNT, storepb.Aggr_SUM, storepb.Aggr_MIN, storepb.Aggr_MAX, storepb.Aggr_COUNTER} {
			want[x] = true
		}
	}
	ch := &storepb.AggrChunk{MinTime: baseT + a["count"][0].t, MaxTime: baseT + a["count"][len(a["count"])-1].t}
	if want[storepb.Aggr_COUNT] {
		ch.Count = xorOf(a["count"], false)
	}
	if want[storepb.Aggr_SUM] {
		ch.Sum = xorOf(a["sum"], false)
	}
	if want[storepb.Aggr_MIN] {
		ch.Min = xorOf(a["min"], false)
	}
	if want[storepb.Aggr_MAX] {
		ch.Max = xorOf(a["max"], false)
	}
	if want[storepb.Aggr_COUNTER] {
		ch.Counter = xorOf(a["counter"], true)
	}
	return ch
}

type fakeSeries struct {
	l   labels.Labels // as returned (replica labels stripped when asked and supported)
	rep *replica
	chs []storepb.AggrChunk
}

// matching: the series of this store that match the matchers and have a chunk overlapping [mint, maxt].
func (f *fakeStore) matching(pbms []storepb.LabelMatcher, mint, maxt int64, without []string, strip bool, req *storepb.SeriesRequest) ([]fakeSeries, error) {
	ms, err := storepb.MatchersToPromMatchers(pbms...)
	if err != nil {
		return nil, err
	}
	var sers []fakeSeries
	for i := range f.w.reps {
		r := &f.w.reps[i]
		matches := true
		for _, m := range ms {
			if !m.Matches(r.lbls.Get(m.Name)) {
				matches = false
			}
		}
		if !matches {
			continue
		}
		var chs []storepb.AggrChunk
		for _, c := range r.spec.chunks {
			if c.st != f.st {
				continue
			}
			var ch *storepb.AggrChunk
			if req != nil {
				ch = f.chunkFor(r, c, req)
			} else {
				// label calls: the series is known to the store from the start of the raw chunk to the end
				// of its last downsampling window
				ch = &storepb.AggrChunk{MinTime: baseT + r.samples[c.lo-1].t, MaxTime: baseT + r.samples[c.hi-1].t}
				if a := aggForm(*f.w, r, c)["count"]; len(a) > 0 && baseT+a[len(a)-1].t > ch.MaxTime {
					ch.MaxTime = baseT + a[len(a)-1].t
				}
			}
			if ch.MaxTime < mint || ch.MinTime > maxt {
				continue // a store returns the chunks overlapping the requested range
			}
			chs = append(chs, *ch)
		}
		if len(chs) == 0 {
			continue
		}
		sort.SliceStable(chs, func(i, j int) bool { return chs[i].MinTime < chs[j].MinTime })
		l := r.lbls
		if strip && len(without) > 0 {
			b := labels.NewBuilder(l)
			for _, n := range without {
				b.Del(n)
			}
			l = b.Labels()
		}
		sers = append(sers, fakeSeries{l, r, chs})
	}
	sort.SliceStable(sers, func(i, j int) bool { return labels.Compare(sers[i].l, sers[j].l) < 0 })
	return sers, nil
}

func (f *fakeStore) Series(ctx context.Context, req *storepb.SeriesRequest, _ ...grpc.CallOption) (storepb.Store_SeriesClient, error) {
	f.mu.Lock()
	f.reqs = append(f.reqs, seriesReq{mint: req.MinTime, maxt: req.MaxTime, without: append([]string{}, req.WithoutReplicaLabels...),
		matchers: len(req.Matchers), pr: req.PartialResponseStrategy.String(), maxRes: req.MaxResolutionWindow, aggrs: len(req.Aggregates)})
	f.mu.Unlock()
	if f.fail == "open" {
		return nil, errors.New("verif: store unavailable")
	}
	sers, err := f.matching(req.Matchers, req.MinTime, req.MaxTime, req.WithoutReplicaLabels, f.strip, req)
	if err != nil {
		return nil, err
	}
	var resps []*storepb.SeriesResponse
	for _, s := range sers {
		if req.SkipChunks {
			resps = append(resps, storepb.NewSeriesResponse(&storepb.Series{Labels: labelpb.ZLabelsFromPromLabels(s.l)}))
			continue
		}
		n := f.frame
		if n <= 0 {
			n = len(s.chs)
		}
		for i := 0; i < len(s.chs); i += n {
			e := i + n
			if e > len(s.chs) {
				e = len(s.chs)
			}
			resps = append(resps, storepb.NewSeriesResponse(&storepb.Series{
				Labels: labelpb.ZLabelsFromPromLabels(s.l), Chunks: append([]storepb.AggrChunk{}, s.chs[i:e]...)}))
		}
	}
	cl := &storetestutil.StoreSeriesClient{Ctx: ctx, RespSet: resps}
	switch f.fail {
	case "recv":
		cl.InjectedError = errors.New("verif: stream broke")
		cl.InjectedErrorIndex = len(resps) // fails after everything it had was sent (index 0 = first Recv)
	case "mid":
		cl.InjectedError = errors.New("verif: stream broke mid-way")
		cl.RespSet = resps[:(len(resps)+1)/2]
		cl.InjectedErrorIndex = len(cl.RespSet) // half of the frames arrive, then the stream fails
	}
	return cl, nil
}

// LabelNames / LabelValues of the fake store honour the StoreAPI contract: time range, matchers, and
// without_replica_labels ("replica labels which have to be excluded").
func (f *fakeStore) LabelNames(ctx context.Context, req *storepb.LabelNamesRequest, _ ...grpc.CallOption) (*storepb.LabelNamesResponse, error) {
	if f.fail != "" {
		return nil, errors.New("verif: store unavailable")
	}
	sers, err := f.matching(req.Matchers, req.Start, req.End, req.WithoutReplicaLabels, true, nil)
	if err != nil {
		return nil, err
	}
	set := map[string]bool{}
	for _, s := range sers {
		s.l.Range(func(l labels.Label) { set[l.Name] = true })
	}
	out := []string{}
	for n := range set {
		out = append(out, n)
	}
	sort.Strings(out)
	return &storepb.LabelNamesResponse{Names: out}, nil
}

func (f *fakeStore) LabelValues(ctx context.Context, req *storepb.LabelValuesRequest, _ ...grpc.CallOption) (*storepb.LabelValuesResponse, error) {
	if f.fail != "" {
		return nil, errors.New("verif: store unavailable")
	}
	sers, err := f.matching(req.Matchers, req.Start, req.End, req.WithoutReplicaLabels, true, nil)
	if err != nil {
		return nil, err
	}
	set := map[string]bool{}
	for _, s := range sers {
		if v := s.l.Get(req.Label); v != "" {
			set[v] = true
		}
	}
	out := []string{}
	for n := range set {
		out = append(out, n)
	}
	sort.Strings(out)
	return &storepb.LabelValuesResponse{Values: out}, nil
}

// ---------------------------------------------------------------------------------------------
// running one case

type outSeries struct {
	lbls    map[string]any
	samples [][]int64
}

type runResult struct {
	series  []any
	err     string
	warns   int
	reqs    []any
	queried []any
	// TSDB mode: largest number of frames one series was streamed in by a real TSDBStore
	maxFrames int
	// metadata calls
	lnames, lvals []string
	lerr          string
	lwarns        int
}

func nstores(w world) int {
	n := 1
	for _, r := range w.reps {
		for _, c := range r.spec.chunks {
			if c.st > n {
				n = c.st
			}
		}
	}
	return n
}

func storeRange(w world, st int) (int64, int64) {
	lo, hi := int64(math.MaxInt64), int64(math.MinInt64)
	for _, r := range w.reps {
		for _, c := range r.spec.chunks {
			if c.st != st {
				continue
			}
			if t := baseT + r.samples[c.lo-1].t; t < lo {
				lo = t
			}
			if t := baseT + r.samples[c.hi-1].t; t > hi {
				hi = t
			}
		}
	}
	return lo, hi
}

func runCase(t *testing.T, w world, cfg config) (res runResult) {
	defer func() {
		if r := recover(); r != nil {
			res.err = fmt.Sprintf("panic: %v", r)
		}
	}()
	var clients []store.Client
	var fakes []*fakeStore
	var closers []func()
	var counters []*frameCounter
	defer func() {
		for _, c := range closers {
			c()
		}
	}()
	if cfg.tsdb {
		for i := range w.reps {
			r := &w.reps[i]
			fc := &frameCounter{}
			counters = append(counters, fc)
			cl, closeFn := tsdbClient(t, w, r, cfg, fc)
			closers = append(closers, closeFn)
			clients = append(clients, cl)
		}
	} else {
		n := nstores(w)
		for st := 1; st <= n; st++ {
			strip := true
			if st-1 < len(cfg.strip) {
				strip = cfg.strip[st-1]
			}
			f := &fakeStore{name: fmt.Sprintf("store-%d", st), w: &w, st: st, strip: strip, frame: cfg.frame, allagg: cfg.allagg}
			if cfg.down == st {
				f.fail = "open"
				if cfg.mid {
					f.fail = "mid"
				}
			}
			fakes = append(fakes, f)
			mint, maxt := int64(math.MinInt64), int64(math.MaxInt64)
			if cfg.tight {
				mint, maxt = storeRange(w, st)
			}
			clients = append(clients, &storetestutil.TestClient{StoreClient: f, Name: f.name, MinTime: mint, MaxTime: maxt,
				WithoutReplicaLabelsEnabled: strip})
		}
	}
	if cfg.fail != "" {
		f := &fakeStore{name: "store-failing", w: &world{}, st: 1, strip: true, fail: cfg.fail}
		fakes = append(fakes, f)
		clients = append(clients, &storetestutil.TestClient{StoreClient: f, Name: f.name, MinTime: math.MinInt64, MaxTime: math.MaxInt64,
			WithoutReplicaLabelsEnabled: true})
	}
	retr := store.EagerRetrieval
	if cfg.retr == "lazy" {
		retr = store.LazyRetrieval
	}
	// no frame timeout, generous select timeout: no verdict may depend on the machine being fast
	proxy := store.NewProxyStore(nil, nil, func() []store.Client { return clients }, component.Query, labels.EmptyLabels(),
		0, retr, store.WithLazyRetrievalMaxBufferedResponsesForProxy(1+cfg.batch))
	qc := query.NewQueryableCreator(nil, nil, proxy, 2, 15*time.Minute, dedup.AlgorithmPenalty, cfg.batch)
	var storeMatchers [][]*labels.Matcher
	if cfg.sel > 0 {
		storeMatchers = [][]*labels.Matcher{{labels.MustNewMatcher(labels.MatchEqual, "__address__", fmt.Sprintf("store-%d", cfg.sel))}}
	}
	var hints *storage.SelectHints
	if cfg.fn != "" {
		hints = &storage.SelectHints{Start: baseT + cfg.lo, End: baseT + cfg.hi, Func: cfg.fn, Range: cfg.rng}
	}
	q, err := qc(cfg.dedup, cfg.rls, storeMatchers, cfg.maxres, cfg.pr, cfg.skip, nil, query.NoopSeriesStatsReporter).Querier(baseT+cfg.lo, baseT+cfg.hi)
	if err != nil {
		res.err = "querier: " + err.Error()
		return res
	}
	defer q.Close()
	nameM := labels.MustNewMatcher(labels.MatchEqual, "__name__", "m")
	ss := q.Select(context.Background(), false, hints, nameM)
	res.series = []any{}
	for ss.Next() {
		s := ss.At()
		o := map[string]any{"lbls": lblMap(s.Labels())}
		sm := [][]int64{}
		it := s.Iterator(nil)
		for !cfg.skip && it.Next() != chunkenc.ValNone { // a series metadata call reads label sets only
			ts, v := it.At()
			sm = append(sm, []int64{ts - baseT, int64(v)})
			if len(sm) > 100000 {
				res.err = "iterator does not end"
				return res
			}
		}
		if !cfg.skip && it.Err() != nil {
			res.err = "iterator: " + it.Err().Error()
		}
		o["samples"] = sm
		res.series = append(res.series, o)
	}
	if ss.Err() != nil {
		res.err = "select: " + ss.Err().Error()
	}
	if strings.Contains(res.err, "deadline") || strings.Contains(res.err, "failed to wait for turn") {
		t.Fatalf("timing problem, not an observation: %s", res.err) // exit 2, never a verdict
	}
	res.warns = len(ss.Warnings())
	// metadata calls of the same querier
	res.lnames, res.lvals = []string{}, []string{}
	names, w1, err1 := q.LabelNames(context.Background(), nil, nameM)
	vals, w2, err2 := q.LabelValues(context.Background(), cfg.lv, nil, nameM)
	switch {
	case err1 != nil:
		res.lerr = "LabelNames: " + err1.Error()
	case err2 != nil:
		res.lerr = "LabelValues: " + err2.Error()
	default:
		res.lnames, res.lvals = append(res.lnames, names...), append(res.lvals, vals...)
		res.lwarns = len(w1) + len(w2)
	}
	if strings.Contains(res.lerr, "deadline") {
		t.Fatalf("timing problem, not an observation: %s", res.lerr)
	}
	for _, fc := range counters {
		fc.mu.Lock()
		if fc.maxFrames > res.maxFrames {
			res.maxFrames = fc.maxFrames
		}
		fc.mu.Unlock()
	}
	res.reqs = []any{}
	res.queried = []any{}
	for _, f := range fakes {
		f.mu.Lock()
		for _, r := range f.reqs {
			res.reqs = append(res.reqs, map[string]any{"store": f.name, "mint": r.mint - baseT, "maxt": r.maxt - baseT,
				"without": append([]string{}, r.without...), "matchers": r.matchers, "pr": r.pr, "maxres": r.maxRes, "aggrs": r.aggrs})
		}
		if len(f.reqs) > 0 {
			res.queried = append(res.queried, f.name)
		}
		f.mu.Unlock()
	}
	return res
}

// frameCounter wraps a store client and counts, per Series call, the largest number of consecutive
// frames that carried the same label set (> 1 = a series was streamed in several frames).
type frameCounter struct {
	storepb.StoreClient
	mu        sync.Mutex
	maxFrames int
}

type countingSeriesClient struct {
	storepb.Store_SeriesClient
	fc   *frameCounter
	last string
	run  int
}

func (c *frameCounter) Series(ctx context.Context, req *storepb.SeriesRequest, opts ...grpc.CallOption) (storepb.Store_SeriesClient, error) {
	cl, err := c.StoreClient.Series(ctx, req, opts...)
	if err != nil {
		return nil, err
	}
	return &countingSeriesClient{Store_SeriesClient: cl, fc: c}, nil
}

func (c *countingSeriesClient) Recv() (*storepb.SeriesResponse, error) {
	r, err := c.Store_SeriesClient.Recv()
	if err == nil {
		var sers []*storepb.Series
		if r.GetSeries() != nil {
			sers = append(sers, r.GetSeries())
		}
		if b := r.GetBatch(); b != nil {
			sers = append(sers, b.Series...)
		}
		for _, x := range sers {
			l := labelpb.ZLabelsToPromLabels(x.Labels).String()
			if l == c.last {
				c.run++
			} else {
				c.last, c.run = l, 1
			}
			c.fc.mu.Lock()
			if c.run > c.fc.maxFrames {
				c.fc.maxFrames = c.run
			}
			c.fc.mu.Unlock()
		}
	}
	return r, err
}

// tsdbClient: a real TSDB holding the replica's samples behind a real TSDBStore whose external
// labels are the replica labels.
func tsdbClient(t *testing.T, w world, r *replica, cfg config, fc *frameCounter) (store.Client, func()) {
	opts := tsdb.DefaultOptions()
	opts.WALSegmentSize = -1 // no WAL
	opts.RetentionDuration = 0
	opts.MinBlockDuration = int64(48 * time.Hour / time.Millisecond)
	opts.MaxBlockDuration = opts.MinBlockDuration
	if cfg.spc > 0 {
		opts.SamplesPerChunk = cfg.spc // many small head chunks
	}
	db, err := tsdb.Open(t.TempDir(), nil, nil, opts, nil)
	if err != nil {
		t.Fatalf("harness setup (not an observation): %v", err)
	}
	intb, extb := labels.NewBuilder(labels.EmptyLabels()), labels.NewBuilder(labels.EmptyLabels())
	r.lbls.Range(func(l labels.Label) {
		if l.Name == "replica" || l.Name == "rule_replica" {
			extb.Set(l.Name, l.Value)
		} else {
			intb.Set(l.Name, l.Value)
		}
	})
	app := db.Appender(context.Background())
	il := intb.Labels()
	for i, s := range r.samples {
		if _, err := app.Append(0, il, baseT+s.t, float64(s.v)); err != nil {
			t.Fatalf("harness setup (not an observation): %v", err)
		}
		if i%500 == 499 {
			if err := app.Commit(); err != nil {
				t.Fatalf("harness setup (not an observation): %v", err)
			}
			app = db.Appender(context.Background())
		}
	}
	if err := app.Commit(); err != nil {
		t.Fatalf("harness setup (not an observation): %v", err)
	}
	ext := extb.Labels()
	var sopts []store.TSDBStoreOption
	if cfg.tframe > 0 {
		sopts = append(sopts, store.VerifReadPathWithMaxBytesPerFrame(cfg.tframe)) // series span several frames
	}
	ts := store.NewTSDBStore(nil, db, component.Receive, ext, sopts...)
	fc.StoreClient = storepb.ServerAsClient(ts, atomic.Bool{})
	cl := &storetestutil.TestClient{StoreClient: fc, Name: "tsdb-" + ext.String(),
		ExtLset: []labels.Labels{ext}, MinTime: math.MinInt64, MaxTime: math.MaxInt64, WithoutReplicaLabelsEnabled: true}
	return cl, func() { _ = db.Close() }
}

// ---------------------------------------------------------------------------------------------
// known-finding class, decided from the input alone (mirrors ReadPath!IncompleteFirstChain):
// dedup on, a logical series with identical replicas whose first overlap-split chain does not
// hold every logical sample in range.

func stripLbls(l labels.Labels, rl map[string]bool) string {
	b := labels.NewBuilder(l)
	for n := range rl {
		b.Del(n)
	}
	return b.Labels().String()
}

func inKFClass(w world, cfg config) bool {
	rl := cfg.effectiveRL()
	if len(rl) == 0 || cfg.tsdb || w.res > 0 || cfg.skip {
		// worlds with downsampled data are built without overlapping chunks inside a replica: the first
		// chain is always complete there (ReadPathMC), whatever form the stores serve
		return false
	}
	type chunk struct {
		min, max int64
		key      string
		ss       []sample
	}
	type member struct {
		visible []sample
		chunks  []chunk
	}
	groups := map[string][]member{}
	for i := range w.reps {
		r := &w.reps[i]
		var m member
		seenPos := map[int]bool{}
		for _, c := range r.spec.chunks {
			if !cfg.inScope(c.st) {
				continue
			}
			ss := r.samples[c.lo-1 : c.hi]
			m.chunks = append(m.chunks, chunk{ss[0].t, ss[len(ss)-1].t, fmt.Sprint(ss), ss})
			for p := c.lo; p <= c.hi; p++ {
				seenPos[p] = true
			}
		}
		if len(m.chunks) == 0 {
			continue
		}
		for p := 1; p <= len(r.samples); p++ {
			if seenPos[p] {
				m.visible = append(m.visible, r.samples[p-1])
			}
		}
		k := stripLbls(r.lbls, rl)
		groups[k] = append(groups[k], m)
	}
	inRange := func(ss []sample) string {
		var out []sample
		for _, x := range ss {
			if x.t >= cfg.lo && x.t <= cfg.hi {
				out = append(out, x)
			}
		}
		return fmt.Sprint(out)
	}
	for _, g := range groups {
		ident := true
		for _, m := range g[1:] {
			if fmt.Sprint(m.visible) != fmt.Sprint(g[0].visible) {
				ident = false
			}
		}
		if !ident {
			continue
		}
		// distinct chunks (by content) that overlap the range, ordered by (min, max)
		seen := map[string]bool{}
		var chs []chunk
		for _, m := range g {
			for _, c := range m.chunks {
				if c.max < cfg.lo || c.min > cfg.hi || seen[c.key] {
					continue
				}
				seen[c.key] = true
				chs = append(chs, c)
			}
		}
		if len(chs) == 0 {
			continue
		}
		sort.Slice(chs, func(i, j int) bool {
			if chs[i].min != chs[j].min {
				return chs[i].min < chs[j].min
			}
			return chs[i].max < chs[j].max
		})
		// first chain of the first-fit split, concatenated like chunkSeriesIterator
		chain := append([]sample{}, chs[0].ss...)
		lastMax := chs[0].max
		for _, c := range chs[1:] {
			if lastMax < c.min {
				chain = append(chain, c.ss...)
				lastMax = c.max
			}
		}
		if inRange(chain) != inRange(g[0].visible) {
			return true
		}
	}
	return false
}

// ---------------------------------------------------------------------------------------------
// case generation

const wholeLo, wholeHi = int64(0), int64(100_000_000)

func maxPt(w world) int {
	m := 1
	for _, r := range w.reps {
		for _, p := range r.spec.pts {
			if p > m {
				m = p
			}
		}
	}
	return m
}

func randomConfig(rnd *rand.Rand, w world, dedupOn bool) config {
	n := nstores(w)
	cfg := config{dedup: dedupOn, rls: []string{"replica", "rule_replica"}, lo: wholeLo, hi: wholeHi,
		retr: []string{"eager", "lazy"}[rnd.Intn(2)], frame: []int{0, 0, 1, 2}[rnd.Intn(4)], batch: []int{0, 1, 2, 5}[rnd.Intn(4)],
		pr: rnd.Intn(2) == 0, tight: rnd.Intn(4) == 0}
	for i := 0; i < n; i++ {
		cfg.strip = append(cfg.strip, rnd.Intn(2) == 0)
	}
	switch rnd.Intn(8) {
	case 0:
		cfg.rls = []string{"replica"}
	case 1:
		cfg.rls = []string{"rule_replica", "replica"}
	case 2:
		if !dedupOn {
			cfg.rls = []string{}
		}
	}
	switch rnd.Intn(10) {
	case 0:
		cfg.fail = "open"
	case 1:
		cfg.fail = "recv"
	case 2:
		if n >= 2 {
			cfg.sel = 1 + rnd.Intn(n)
		}
	case 3:
		if n >= 2 {
			cfg.down = 1 + rnd.Intn(n)
		}
	case 4:
		if n >= 2 {
			cfg.sel, cfg.down = 1+rnd.Intn(n), 1+rnd.Intn(n)
		}
	}
	if cfg.down > 0 {
		cfg.tight = false // a pruned store is not queried and cannot fail
	}
	if rnd.Intn(4) == 0 {
		cfg.maxres = []int64{0, 300_000, 3_600_000}[rnd.Intn(3)]
		cfg.fn = []string{"max_over_time", "delta", "deriv", "avg_over_time"}[rnd.Intn(4)]
		cfg.rng = []int64{0, 60_000, 400_000, 10_000_000}[rnd.Intn(4)]
	}
	if rnd.Intn(3) == 0 {
		m := maxPt(w)
		a, b := 1+rnd.Intn(m), 1+rnd.Intn(m)
		if a > b {
			a, b = b, a
		}
		cfg.lo, cfg.hi = int64(a)*w.step-int64(rnd.Intn(2))*w.step/2, int64(b)*w.step+int64(rnd.Intn(2))*w.step/2
	}
	return cfg
}

func withCfg(c vt.Case, cfg config, part string) vt.Case {
	out := vt.Case{}
	for k, v := range c {
		out[k] = v
	}
	out["cfg"] = cfg.toMap()
	out["part"] = part
	return out
}

// randomWorld: bigger worlds than the model's (more samples, replicas, chunks, stores).
func randomWorld(rnd *rand.Rand, maxSamples int, forTSDB bool) vt.Case {
	step := []int64{1000, 5000, 15000, 30000}[rnd.Intn(4)]
	shape := []string{"a", "z"}[rnd.Intn(2)]
	ngroups := 1 + rnd.Intn(3)
	nst := 1 + rnd.Intn(4)
	reps := []any{}
	for g := 1; g <= ngroups; g++ {
		n := 1 + rnd.Intn(maxSamples)
		if forTSDB {
			n = maxSamples/3 + rnd.Intn(2*maxSamples/3) // enough samples for several head chunks
		}
		nrep := 1 + rnd.Intn(4)
		ident := rnd.Intn(3) > 0
		overlap := rnd.Intn(3) == 0
		for id := 1; id <= nrep; id++ {
			var pts []int
			off := int64(0)
			if ident {
				for p := 1; p <= n; p++ {
					pts = append(pts, p)
				}
			} else {
				// gaps: a replica misses a stretch or random scrapes
				gapLo, gapHi := 0, 0
				if rnd.Intn(2) == 0 {
					gapLo = 1 + rnd.Intn(n)
					gapHi = gapLo + rnd.Intn(n)
				}
				for p := 1; p <= n; p++ {
					if (p >= gapLo && p <= gapHi) || rnd.Intn(10) == 0 {
						continue
					}
					pts = append(pts, p)
				}
				if len(pts) == 0 {
					pts = []int{1 + rnd.Intn(n)}
				}
				off = int64(rnd.Intn(4)) * step / 10
			}
			rl := []string{"r", "r", "r", "s", "rs"}[rnd.Intn(5)]
			// cut into chunks
			chunks := []any{}
			pos := 1
			for pos <= len(pts) {
				ln := 1 + rnd.Intn(1+len(pts)/2)
				if forTSDB {
					ln = len(pts)
				}
				hi := pos + ln - 1
				if hi > len(pts) {
					hi = len(pts)
				}
				lo := pos
				if overlap && pos > 1 && rnd.Intn(2) == 0 {
					lo = pos - 1 - rnd.Intn(pos-1) // reaches back into earlier chunks
				}
				chunks = append(chunks, map[string]any{"lo": lo, "hi": hi, "st": 1 + rnd.Intn(nst)})
				pos = hi + 1
			}
			reps = append(reps, map[string]any{"g": g, "id": id, "rl": rl, "off": off, "own": !ident, "pts": pts, "chunks": chunks})
		}
	}
	return vt.Case{"step": step, "shape": shape, "reps": reps}
}

// dsWorld (phase 2): worlds whose stores also hold downsampled data.  Windows of `res` grid points; chunk
// cuts are aligned to windows and never overlap inside a replica; per logical series the windows up to a
// boundary are held downsampled ("old" data), the rest raw - replicas of a series share the boundary
// (so identical replicas stay identical in what the stores serve) unless they deviate on purpose.
func dsWorld(rnd *rand.Rand) vt.Case {
	step := []int64{1000, 15000, 30000}[rnd.Intn(3)]
	res := []int{2, 3, 5}[rnd.Intn(3)]
	shape := []string{"a", "z"}[rnd.Intn(2)]
	nst := 1 + rnd.Intn(3)
	reps := []any{}
	for g, ng := 1, 1+rnd.Intn(2); g <= ng; g++ {
		nwin := 2 + rnd.Intn(7)
		ident := rnd.Intn(3) > 0
		bound := rnd.Intn(nwin + 1) // windows 1..bound are downsampled
		if rnd.Intn(4) == 0 {
			bound = nwin
		}
		for id, nrep := 1, 1+rnd.Intn(3); id <= nrep; id++ {
			var pts []int
			off := int64(0)
			for p := 1; p <= nwin*res; p++ {
				if !ident && rnd.Intn(5) == 0 {
					continue
				}
				pts = append(pts, p)
			}
			if len(pts) == 0 {
				pts = []int{1}
			}
			if !ident {
				off = int64(rnd.Intn(3)) * step / 10
			}
			b := bound
			if rnd.Intn(6) == 0 {
				b = rnd.Intn(nwin + 1) // this replica's store downsampled a different stretch
			}
			// window-aligned cut boundaries (after window k), b always among them
			cutAfter := map[int]bool{b: true, nwin: true}
			for k := 1; k < nwin; k++ {
				if rnd.Intn(3) == 0 {
					cutAfter[k] = true
				}
			}
			chunks := []any{}
			lo := 1
			for pos := 1; pos <= len(pts); pos++ {
				win := (pts[pos-1] + res - 1) / res
				last := pos == len(pts) || (pts[pos]+res-1)/res != win
				if last && (cutAfter[win] || pos == len(pts)) {
					chunks = append(chunks, map[string]any{"lo": lo, "hi": pos, "st": 1 + rnd.Intn(nst), "ds": win <= b})
					lo = pos + 1
				}
			}
			reps = append(reps, map[string]any{"g": g, "id": id, "rl": []string{"r", "r", "s", "rs"}[rnd.Intn(4)], "off": off,
				"own": !ident, "pts": pts, "chunks": chunks})
		}
	}
	return vt.Case{"step": step, "shape": shape, "res": res, "reps": reps}
}

// gapWorld (phase 2): one logical series whose replicas (own values, each non-decreasing) take turns in
// missing stretches of scrapes, so that the penalty dedup has to switch replicas back and forth.
func gapWorld(rnd *rand.Rand) vt.Case {
	step := []int64{1000, 15000, 30000}[rnd.Intn(3)]
	n := 12 + rnd.Intn(30)
	nrep := 2 + rnd.Intn(2)
	blk := 3 + rnd.Intn(5)
	nst := 1 + rnd.Intn(3)
	reps := []any{}
	for id := 1; id <= nrep; id++ {
		var pts []int
		for p := 1; p <= n; p++ {
			if ((p-1)/blk)%nrep == id-1 && rnd.Intn(8) > 0 {
				continue // this replica's turn to be down
			}
			pts = append(pts, p)
		}
		if len(pts) == 0 {
			pts = []int{id}
		}
		chunks := []any{}
		for pos := 1; pos <= len(pts); {
			hi := pos + rnd.Intn(1+len(pts)/2)
			if hi > len(pts) {
				hi = len(pts)
			}
			chunks = append(chunks, map[string]any{"lo": pos, "hi": hi, "st": 1 + rnd.Intn(nst)})
			pos = hi + 1
		}
		reps = append(reps, map[string]any{"g": 1, "id": id, "rl": "r", "off": int64(rnd.Intn(3)) * step / 10, "own": true, "pts": pts, "chunks": chunks})
	}
	return vt.Case{"step": step, "shape": "a", "reps": reps}
}

var p2Funcs = []string{"min_over_time", "max_over_time", "count_over_time", "sum_over_time", "rate", "increase", "avg_over_time", "", "delta"}

// p2Config (phase 2): aggregate-selecting functions, max source resolution around the window size,
// stores returning all / only the requested aggregates.
func p2Config(rnd *rand.Rand, w world, dedupOn bool) config {
	cfg := randomConfig(rnd, w, dedupOn)
	cfg.fn = p2Funcs[rnd.Intn(len(p2Funcs))]
	rm := w.resMs()
	if rm == 0 {
		rm = 300_000
	}
	cfg.maxres = []int64{0, rm, rm, 10 * rm}[rnd.Intn(4)]
	cfg.rng = []int64{0, 4 * rm, 4 * rm, rm}[rnd.Intn(4)]
	cfg.allagg = rnd.Intn(2) == 0
	return cfg
}

func TestC04(t *testing.T) {
	rnd := vt.Rand()
	gen := func(yield func(vt.Case)) {
		nemit := 0
		emit := func(wc vt.Case, cfg config) {
			w := parseWorld(vt.Normalize(wc))
			// label asked with LabelValues: cycles through the distinguishing label, the replica labels, __name__
			nemit++
			cfg.lv = []string{"job", "replica", "rule_replica", "__name__"}[nemit%4]
			if cfg.lv == "job" && w.shape == "z" {
				cfg.lv = "zone"
			}
			if inKFClass(w, cfg) {
				yield(withCfg(wc, cfg, "rest"))
				yield(withCfg(wc, cfg, "kf"))
			} else {
				yield(withCfg(wc, cfg, "all"))
			}
		}
		for _, wc := range vt.TLCCases(t) {
			w := parseWorld(wc)
			// every model world: dedup on and off, each with a seeded configuration
			if w.res > 0 { // class D: downsampled chunks
				emit(wc, p2Config(rnd, w, true))
				emit(wc, p2Config(rnd, w, true))
				emit(wc, p2Config(rnd, w, false))
				continue
			}
			emit(wc, randomConfig(rnd, w, true))
			emit(wc, randomConfig(rnd, w, false))
		}
		for i, n := 0, vt.Pick(200, 3000); i < n; i++ {
			wc := randomWorld(rnd, []int{6, 20, 60}[rnd.Intn(3)], false)
			w := parseWorld(vt.Normalize(wc))
			emit(wc, randomConfig(rnd, w, true))
			emit(wc, randomConfig(rnd, w, rnd.Intn(2) == 0))
		}
		// TSDB-backed worlds: most with small head chunks and a tiny TSDBStore frame budget, so that
		// a series is streamed as several frames by the real store
		for i, n := 0, vt.Pick(30, 300); i < n; i++ {
			wc := randomWorld(rnd, vt.Pick(150, 400), true)
			w := parseWorld(vt.Normalize(wc))
			cfg := randomConfig(rnd, w, i%2 == 0)
			cfg.tsdb, cfg.sel, cfg.down, cfg.fail = true, 0, 0, ""
			if i%4 != 3 {
				cfg.lo, cfg.hi = wholeLo, wholeHi
			}
			if i%5 != 4 {
				cfg.spc = []int{2, 3, 5, 8, 13}[rnd.Intn(5)]
				cfg.tframe = []int{1, 60, 120, 250}[rnd.Intn(4)]
			}
			emit(wc, cfg)
		}
		// ---- phase 2 ----
		// downsampled data through the read path (aggregated chunks, auto-downsampling, mixed raw + downsampled)
		for i, n := 0, vt.Pick(150, 2500); i < n; i++ {
			wc := dsWorld(rnd)
			w := parseWorld(vt.Normalize(wc))
			emit(wc, p2Config(rnd, w, true))
			emit(wc, p2Config(rnd, w, rnd.Intn(2) == 0))
		}
		// counter functions on raw data, series metadata calls (skipChunks), a data store failing mid-stream
		for i, n := 0, vt.Pick(150, 2000); i < n; i++ {
			wc := randomWorld(rnd, []int{6, 20, 40}[rnd.Intn(3)], false)
			if i%3 == 0 && i%2 == 0 {
				wc = gapWorld(rnd)
			}
			w := parseWorld(vt.Normalize(wc))
			cfg := randomConfig(rnd, w, i%3 != 0 || i%2 == 0)
			switch i % 3 {
			case 0:
				cfg.fn, cfg.rng = []string{"rate", "increase"}[rnd.Intn(2)], 600_000
			case 1:
				cfg.skip = true
			case 2:
				if n := nstores(w); n >= 2 {
					cfg.down, cfg.mid, cfg.sel, cfg.tight, cfg.pr = 1+rnd.Intn(n), true, 0, false, rnd.Intn(4) > 0
				}
			}
			emit(wc, cfg)
		}
	}
	kf := func(c vt.Case) string {
		if vt.Str(c["part"]) == "kf" {
			return kfKey
		}
		return ""
	}
	vt.Run(t, gen, kf, func(c vt.Case) vt.Event {
		w := parseWorld(c)
		cfg := parseConfig(c)
		res := runCase(t, w, cfg)
		if res.series == nil {
			res.series = []any{}
		}
		if res.reqs == nil {
			res.reqs = []any{}
		}
		if res.queried == nil {
			res.queried = []any{}
		}
		if res.lnames == nil {
			res.lnames = []string{}
		}
		if res.lvals == nil {
			res.lvals = []string{}
		}
		total := 0
		for _, r := range w.reps {
			total += len(r.samples)
		}
		return vt.Event{"world": worldEvent(w), "cfg": cfg.toMap(), "part": vt.Str(c["part"]),
			"drift": !cfg.tsdb && total <= 60, "nstores": nstores(w), "maxframes": res.maxFrames, "resms": w.resMs(),
			"lnames": res.lnames, "lvals": res.lvals, "lerr": res.lerr, "lwarns": res.lwarns,
			"series": res.series, "err": res.err, "warns": res.warns, "reqs": res.reqs, "queried": res.queried}
	})
}
