package rulesx

import (
	"context"
	"errors"
	"fmt"
	"io"
	"math/rand"
	"os"
	"strings"
	"testing"
	"time"

	"github.com/go-kit/log"
	"github.com/prometheus/prometheus/model/labels"
	"google.golang.org/grpc"

	"github.com/thanos-io/thanos/pkg/rules"
	"github.com/thanos-io/thanos/pkg/rules/rulespb"
	"github.com/thanos-io/thanos/pkg/store/labelpb"
	"github.com/thanos-io/thanos/pkg/store/storepb"

	"verif/harness/vt"
)

// fakeRules is the rules server behind the client under test: it streams the group messages
// of the case, as the proxy would after fanning out to the replicas.
type fakeRules struct{ groups []*rulespb.RuleGroup }

func (f *fakeRules) Rules(_ *rulespb.RulesRequest, srv rulespb.Rules_RulesServer) error {
	for _, g := range f.groups {
		if err := srv.Send(rulespb.NewRuleGroupRulesResponse(g)); err != nil {
			return err
		}
	}
	return nil
}

// fakeClient is one rules server behind the real rules.Proxy: it may send a warning first, fail when
// the call is opened, or fail in mid-stream (before its group messages).
type fakeClient struct {
	groups []*rulespb.RuleGroup
	fail   string
}

type fakeStream struct {
	grpc.ClientStream
	c   *fakeClient
	pos int
}

func (f *fakeClient) Rules(ctx context.Context, _ *rulespb.RulesRequest, _ ...grpc.CallOption) (rulespb.Rules_RulesClient, error) {
	if f.fail == "open" {
		return nil, errors.New("rules server unavailable")
	}
	return &fakeStream{c: f}, nil
}

func (s *fakeStream) Recv() (*rulespb.RulesResponse, error) {
	s.pos++
	if s.c.fail == "mid" {
		return nil, errors.New("stream broken")
	}
	i := s.pos - 1
	if s.c.fail == "warn" {
		if i == 0 {
			return rulespb.NewWarningRulesResponse(errors.New("some rule files could not be read")), nil
		}
		i--
	}
	if i >= len(s.c.groups) {
		return nil, io.EOF
	}
	return rulespb.NewRuleGroupRulesResponse(s.c.groups[i]), nil
}

func groupMessages(rs []any) []*rulespb.RuleGroup {
	var groups []*rulespb.RuleGroup
	for _, x := range rs {
		r := vt.Map(x)
		f, g := vt.Str(r["file"]), vt.Str(r["group"])
		if n := len(groups); n == 0 || groups[n-1].File != f || groups[n-1].Name != g {
			groups = append(groups, &rulespb.RuleGroup{File: f, Name: g})
		}
		groups[len(groups)-1].Rules = append(groups[len(groups)-1].Rules, mkRule(r))
	}
	return groups
}

// fullReq completes a case to the request shape the trace spec judges (Rules.tla, phase 2): cases of
// the first generation have one healthy rules server, no name/group/file filter.
func fullReq(c vt.Case) map[string]any {
	req := map[string]any{"sets": c["sets"], "rep": c["rep"], "names": []any{}, "groups": []any{}, "files": []any{},
		"strategy": "WARN", "clients": []any{map[string]any{"fail": "none"}}}
	for _, k := range []string{"names", "groups", "files", "strategy", "clients"} {
		if v, ok := c[k]; ok {
			req[k] = v
		}
	}
	rs := []any{}
	for _, x := range vt.List(c["rules"]) {
		r := map[string]any{}
		for k, v := range vt.Map(x) {
			r[k] = v
		}
		if _, ok := r["src"]; !ok {
			r["src"], r["sent"] = 1, true
		}
		rs = append(rs, r)
	}
	req["rules"] = rs
	return req
}

const evalBase = 1700000000

func mkRule(r map[string]any) *rulespb.Rule {
	var ls []labelpb.ZLabel
	for _, l := range vt.List(r["labels"]) {
		m := vt.Map(l)
		ls = append(ls, labelpb.ZLabel{Name: vt.Str(m["n"]), Value: vt.Str(m["v"])})
	}
	set := labelpb.ZLabelSet{Labels: ls}
	ev := time.Unix(evalBase+vt.Int64(r["ev"]), 0).UTC()
	if vt.Str(r["type"]) == "alert" {
		return rulespb.NewAlertingRule(&rulespb.Alert{
			Name: vt.Str(r["name"]), Query: vt.Str(r["query"]), DurationSeconds: float64(vt.Int(r["dur"])),
			Labels: set, State: rulespb.AlertState(vt.Int(r["st"])), LastEvaluation: ev, Health: "ok",
		})
	}
	return rulespb.NewRecordingRule(&rulespb.RecordingRule{
		Name: vt.Str(r["name"]), Query: vt.Str(r["query"]), Labels: set, LastEvaluation: ev, Health: "ok",
	})
}

// selector renders one abstract matcher set as a match[] string.
func selector(set []any) string {
	var parts []string
	for _, x := range set {
		m := vt.Map(x)
		alts := vt.Strs(m["alts"])
		op := map[string]string{"EQ": "=", "NEQ": "!=", "RE": "=~", "NRE": "!~"}[vt.Str(m["type"])]
		val := alts[0]
		if op == "=~" || op == "!~" {
			val = strings.Join(alts, "|")
		}
		parts = append(parts, fmt.Sprintf("%s%s%q", vt.Str(m["name"]), op, val))
	}
	return "{" + strings.Join(parts, ",") + "}"
}

func outRule(g *rulespb.RuleGroup, r *rulespb.Rule) map[string]any {
	ls := []any{}
	r.GetLabels().Range(func(l labels.Label) {
		ls = append(ls, map[string]any{"n": l.Name, "v": l.Value})
	})
	o := map[string]any{"file": g.File, "group": g.Name, "name": r.GetName(), "query": r.GetQuery(), "labels": ls,
		"ev": r.GetLastEvaluation().Unix() - evalBase}
	if a := r.GetAlert(); a != nil {
		o["type"], o["dur"], o["st"] = "alert", int(a.DurationSeconds), int(a.State)
	} else {
		o["type"], o["dur"], o["st"] = "rec", 0, 0
	}
	return o
}

// ---- random concrete cases: realistic names, more rules/sets/replicas than the model ----

var (
	lnames  = []string{"severity", "team", "cluster", "tier"}
	lvalues = []string{"page", "warn", "infra", "db", "eu-1", "us-2"}
	tmpls   = []string{"{{ $labels.instance }}", "{{ $externalURL }}", "pre-{{ .Labels.job }}", "{{ $value }}%", "{{ .a }}-{{ .b }}"}
	repls   = []string{"replica", "rule_replica"}
)

func randLabels(r *rand.Rand) []any {
	var ls []any
	for _, n := range lnames {
		switch r.Intn(5) {
		case 0, 1:
			ls = append(ls, map[string]any{"n": n, "v": lvalues[r.Intn(len(lvalues))], "t": false})
		case 2:
			ls = append(ls, map[string]any{"n": n, "v": tmpls[r.Intn(len(tmpls))], "t": true})
		}
	}
	return ls
}

func randMatcher(r *rand.Rand, rep []string) map[string]any {
	name := lnames[r.Intn(len(lnames))]
	if len(rep) > 0 && r.Intn(8) == 0 {
		name = rep[r.Intn(len(rep))]
	}
	val := func() string {
		switch r.Intn(8) {
		case 0:
			return ""
		case 1:
			return []string{"a", "b"}[r.Intn(2)] // replica values
		}
		return lvalues[r.Intn(len(lvalues))]
	}
	typ := []string{"EQ", "EQ", "NEQ", "RE", "NRE"}[r.Intn(5)]
	alts := []any{val()}
	if typ == "RE" || typ == "NRE" {
		for k := r.Intn(3); k > 0; k-- {
			alts = append(alts, val())
		}
	}
	return map[string]any{"name": name, "type": typ, "alts": alts}
}

func randCase(r *rand.Rand) vt.Case {
	rep := []any{}
	var repS []string
	for _, x := range repls[:r.Intn(3)] {
		rep = append(rep, x)
		repS = append(repS, x)
	}
	var rs []any
	nlogical := 1 + r.Intn(4)
	ev := 0
	for i := 0; i < nlogical; i++ {
		typ := []string{"alert", "rec"}[r.Intn(2)]
		base := map[string]any{"file": []string{"/etc/rules/a.yaml", "/etc/rules/b.yaml"}[r.Intn(2)], "group": []string{"node", "kube"}[r.Intn(2)],
			"type": typ, "name": []string{"HighLatency", "job:up:sum"}[r.Intn(2)], "query": []string{"up == 0", "sum(up) by (job)"}[r.Intn(2)],
			"dur": []int{0, 60, 300}[r.Intn(3)]}
		if typ == "rec" {
			base["dur"] = 0
		}
		ls := randLabels(r)
		for k := 1 + r.Intn(3); k > 0; k-- { // replicas of the logical rule
			ev++
			one := map[string]any{}
			for a, b := range base {
				one[a] = b
			}
			l2 := append([]any{}, ls...)
			for _, rl := range repS {
				if r.Intn(4) > 0 {
					l2 = append(l2, map[string]any{"n": rl, "v": []string{"a", "b", "c"}[r.Intn(3)], "t": false})
				}
			}
			one["labels"] = l2
			one["ev"] = ev
			one["st"] = 0
			if typ == "alert" {
				one["st"] = 1 + r.Intn(3)
			}
			rs = append(rs, one)
		}
	}
	r.Shuffle(len(rs), func(i, j int) { rs[i], rs[j] = rs[j], rs[i] })
	sets := []any{}
	for k := r.Intn(4); k > 0; k-- {
		var set []any
		for m := 1 + r.Intn(3); m > 0; m-- {
			set = append(set, randMatcher(r, repS))
		}
		sets = append(sets, set)
	}
	return vt.Case{"rules": rs, "sets": sets, "rep": rep}
}

// randProxyCase spreads the replicas of a random case over 2-4 rules servers with fail modes, picks
// a partial-response strategy and name / group / file filters.
func randProxyCase(r *rand.Rand) vt.Case {
	c := randCase(r)
	n := 2 + r.Intn(3)
	clients := []any{}
	fails := make([]string, n)
	for i := range fails {
		fails[i] = []string{"none", "none", "none", "warn", "open", "mid"}[r.Intn(6)]
		clients = append(clients, map[string]any{"fail": fails[i]})
	}
	for _, x := range c["rules"].([]any) {
		m := x.(map[string]any)
		src := 1 + r.Intn(n)
		m["src"] = src
		m["sent"] = fails[src-1] == "none" || fails[src-1] == "warn"
	}
	// rules of one server travel together, in the server's order
	rs := c["rules"].([]any)
	var ordered []any
	for i := 1; i <= n; i++ {
		for _, x := range rs {
			if x.(map[string]any)["src"] == i {
				ordered = append(ordered, x)
			}
		}
	}
	c["rules"] = ordered
	pick := func(opts []string) []any {
		out := []any{}
		if r.Intn(3) == 0 {
			for _, o := range opts {
				if r.Intn(2) == 0 {
					out = append(out, o)
				}
			}
			if r.Intn(4) == 0 {
				out = append(out, "no-such")
			}
		}
		return out
	}
	c["names"] = pick([]string{"HighLatency", "job:up:sum"})
	c["groups"] = pick([]string{"node", "kube"})
	c["files"] = pick([]string{"/etc/rules/a.yaml", "/etc/rules/b.yaml"})
	c["strategy"] = []string{"WARN", "WARN", "ABORT"}[r.Intn(3)]
	c["clients"] = clients
	return c
}

// TestC45 runs every case through the real rules.NewGRPCClientWithDedup(...).Rules; cases with a
// "clients" field go through the real fan-out rules.Proxy over fake rules servers.
func TestC45(t *testing.T) {
	rnd := vt.Rand()
	gen := func(yield func(vt.Case)) {
		for _, c := range vt.TLCCases(t) {
			yield(c)
		}
		if p := os.Getenv("VERIF_CASES_RULESMCDEDUP"); p != "" {
			cs, err := vt.ReadNDJSON(p)
			if err != nil {
				t.Fatal(err)
			}
			for _, c := range cs {
				yield(c)
			}
		}
		for _, k := range []string{"VERIF_CASES_RULESPROXYMC", "VERIF_CASES_RULESPROXYMC2"} {
			if p := os.Getenv(k); p != "" {
				cs, err := vt.ReadNDJSON(p)
				if err != nil {
					t.Fatal(err)
				}
				for _, c := range cs {
					yield(c)
				}
			}
		}
		for i, n := 0, vt.Pick(1500, 15000); i < n; i++ {
			yield(randCase(rnd))
		}
		for i, n := 0, vt.Pick(500, 6000); i < n; i++ {
			yield(randProxyCase(rnd))
		}
	}
	vt.Run(t, gen, nil, func(c vt.Case) (ev vt.Event) {
		req := fullReq(c)
		_, viaProxy := c["clients"]
		var sels []string
		for _, s := range vt.List(c["sets"]) {
			sels = append(sels, selector(vt.List(s)))
		}
		ev = vt.Event{"sel": append([]string{}, sels...), "req": req, "via": map[bool]string{true: "proxy", false: "direct"}[viaProxy]}
		got := map[string]any{"err": "", "warnings": 0, "rules": []any{}}
		ev["got"] = got
		defer func() {
			if r := recover(); r != nil {
				got["err"] = fmt.Sprint("panic: ", r)
			}
		}()
		var server rulespb.RulesServer
		if !viaProxy {
			// group messages: consecutive rules of one file/group travel together
			server = &fakeRules{groups: groupMessages(vt.List(req["rules"]))}
		} else {
			var clients []rulespb.RulesClient
			for i, x := range vt.List(req["clients"]) {
				var mine []any
				for _, r := range vt.List(req["rules"]) {
					if vt.Int(vt.Map(r)["src"]) == i+1 {
						mine = append(mine, r)
					}
				}
				clients = append(clients, &fakeClient{groups: groupMessages(mine), fail: vt.Str(vt.Map(x)["fail"])})
			}
			server = rules.NewProxy(log.NewNopLogger(), func() []rulespb.RulesClient { return clients })
		}
		strategy := storepb.PartialResponseStrategy_WARN
		if vt.Str(req["strategy"]) == "ABORT" {
			strategy = storepb.PartialResponseStrategy_ABORT
		}
		cl := rules.NewGRPCClientWithDedup(server, vt.Strs(c["rep"]))
		res, warns, err := cl.Rules(context.Background(), &rulespb.RulesRequest{MatcherString: sels, PartialResponseStrategy: strategy,
			RuleName: vt.Strs(req["names"]), RuleGroup: vt.Strs(req["groups"]), File: vt.Strs(req["files"])})
		got["warnings"] = len(warns)
		if err != nil {
			got["err"] = err.Error()
			return ev
		}
		out := []any{}
		for _, g := range res.Groups {
			for _, r := range g.Rules {
				out = append(out, outRule(g, r))
			}
		}
		got["rules"] = out
		return ev
	})
}
