package x

import (
	"testing"

	"github.com/prometheus/prometheus/model/labels"
	"github.com/thanos-io/thanos/pkg/block/metadata"
	"github.com/thanos-io/thanos/pkg/store"
)

func TestX(t *testing.T) {
	set := store.VerifNewBlockSet(labels.FromStrings("ext", "e1"))
	mk := func(id byte, res int64) *metadata.Meta {
		m := &metadata.Meta{}
		m.ULID[15] = id
		m.MinTime, m.MaxTime = 975, 10770801
		m.Thanos.Downsample.Resolution = res
		m.Thanos.Labels = map[string]string{"ext": "e1"}
		return m
	}
	if err := set.Add(mk(1, 0)); err != nil {
		t.Fatal(err)
	}
	for _, mr := range []int64{0, 300000, 3600000} {
		t.Log(mr, "point", set.GetFor(3600077, 3600077, mr), "range", set.GetFor(3600000, 3700000, mr))
	}
}
